#!/usr/bin/env python3
"""debug helper: run single instances of a check in-process with timing.
usage: .venv/bin/python tools/one.py checks.c03 quick "<label substring>" [max instances]"""
import sys, time, os
VERIF = os.path.dirname(os.path.dirname(os.path.abspath(__file__)))
sys.path[:0] = [VERIF, os.environ.get("VERIF_REPO", "/repo")]
import logging; logging.disable(logging.CRITICAL)
import importlib
mod = importlib.import_module(sys.argv[1])
tier = sys.argv[2]
pat = sys.argv[3]
lim = int(sys.argv[4]) if len(sys.argv) > 4 else 5
from checks import common
ins = [i for i in mod.instances(tier, 0) if pat in i['label']]
print(len(ins), 'instances match')
for inst in ins[:lim]:
    t = time.time()
    r = common._worker((sys.argv[1], inst, None))
    print(round(time.time() - t, 2), r['label'][:150])
    print('   ', {k: r[k] for k in ('paths', 'obligations', 'proved', 'by_normal_form', 'unknown', 'violations', 'exceptions', 'inconclusive', 'witnessed') if k in r}, r.get('stats', {}).get('by_stage'))
    if r.get('crashed'):
        print(r['crashed'][-700:])
    for e in r.get('exceptions_full', [])[:1]:
        print('\n'.join((e['tb'] or '').strip().splitlines()[-4:]))
