#!/bin/sh
# usage: tools/seedverify2.sh <dir with patch.diff, demo.py[, stub/]> <check ids...>
# like seedverify.sh, but works on a scratch worktree of /repo's HEAD (/tmp/wt/seedrepo, created with `git -C /repo worktree add --detach`) through
# VERIF_REPO, so that it can run while other checks use /repo itself
D=$1; shift
R=/tmp/wt/seedrepo
[ -d $R ] || { echo "no scratch worktree"; exit 9; }
mkdir -p /tmp/scratch
cd $R || exit 9
git checkout -q -- . ; git checkout -q --detach $(git -C /repo rev-parse HEAD)
OMP_NUM_THREADS=1 PYTHONPATH=$R:$D/stub timeout 900 /venv/bin/python $D/demo.py > /tmp/scratch/sv_clean.log 2>&1; rc1=$?
git apply $D/patch.diff || { echo "patch does not apply"; git checkout -- .; exit 9; }
git diff --stat | tail -1
OMP_NUM_THREADS=1 PYTHONPATH=$R:$D/stub timeout 900 /venv/bin/python $D/demo.py > /tmp/scratch/sv_patched.log 2>&1; rc2=$?
echo "demo: clean exit=$rc1 patched exit=$rc2"
cd /verif
for ID in "$@"; do
  VERIF_REPO=$R ./check $ID --tier quick > /tmp/scratch/seed_$ID.log 2>&1; rc=$?
  echo "$ID exit=$rc  VIOLATION lines: $(grep -c '^VIOLATION' /tmp/scratch/seed_$ID.log)  keys: $(grep '  key=' /tmp/scratch/seed_$ID.log | sed 's/ obligation=.*//' | sort | uniq -c | sort -rn | head -3 | tr '\n' ';' | cut -c1-300)"
done
cd $R && git checkout -- . && git status --short | head -2
