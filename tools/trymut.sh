#!/bin/sh
# usage: tools/trymut.sh <file relative to /repo> <python-regex-old> <new> <check id> [tier]
# applies a one-line textual mutation to /repo, runs the check, restores the tree
F=$1; OLD=$2; NEW=$3; ID=$4; TIER=${5:-quick}
cd /repo || exit 9
python3 - "$F" "$OLD" "$NEW" <<'PY'
import sys
f,old,new=sys.argv[1:4]
s=open(f).read()
assert s.count(old)>=1, "pattern not found"
open(f,'w').write(s.replace(old,new,1))
PY
[ $? -eq 0 ] || { git checkout -- .; exit 9; }
git diff --stat | tail -1
cd /verif && ./check $ID --tier $TIER 2>&1 | grep -v INFO | grep -E "VIOLATION|INCONCLUSIVE|NOT-REPRODUCED|^C[0-9]+ " | cut -c1-220 | sort | uniq -c | sort -rn | head -8
cd /repo && git checkout -- .
