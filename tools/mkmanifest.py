#!/usr/bin/env python3
"""Regenerates /verif/MANIFEST.json from the table below (kept in one place so that claims,
techniques and not_applicable reasons stay in sync with DESIGN.md)."""
import json
import os

VERIF = os.path.dirname(os.path.dirname(os.path.abspath(__file__)))

CHECKS = {}
NA = {}


ROUND6 = {"C15": " Plain Python lists of Op as left / right operands of * + and += since round 6.",
          "C02": " Since round 6 also three oscillators of one class and size with different (dyadic) frequencies and origins distributed over the nodes of every tree shape."}


def claim(pid, category, text, note, technique, design_ref, thorough=True):
    CHECKS[pid] = dict(
        property_id=pid,
        quick_cmd="./check %s --tier quick" % pid,
        evidence_file="/verif/evidence/%s.json" % pid,
        replay_cmd_template="./check --replay {path}",
        engine="symnum",
        level_claimed=dict(category=category, text=text, design_ref=design_ref),
        level_note=note,
        technique=technique,
    )
    CHECKS[pid]["level_note"] += ROUND6.get(pid, "")
    if thorough:
        CHECKS[pid]["thorough_cmd"] = "./check %s --tier thorough" % pid


claim("C19", "other",
      "Bounded-free solver check: every literal of get_tableau is re-read from the current source and evaluated exactly; all Butcher order "
      "conditions up to the advertised order of each row (17 per 5th-order row), row sums and strict triangularity are z3 Real queries; the real "
      "runge_kutta_ti_coefficient is executed symbolically on an arbitrary tableau (1-6 stages) and proved equal to b A^(k-1) 1; float arrays and "
      "Taylor coefficients (orders up to 40, thorough 170) are tied to the rationals within 1 ulp (tableaux) / 4 ulp (1/k!, the package divides by a gamma-function factorial).",
      "Trusts z3, Python's ast/fractions and NumPy object loops. Rounding inside the integrators is out of scope.",
      "AST->exact rationals->z3 (QF_LRA/NRA) + symbolic execution of the real coefficient routine",
      "DESIGN.md section 1, C19")

claim("C20", "other",
      "Symbolic execution of the real bipartite_vertex_cover on graphs whose adjacency bits are solver variables (all graphs up to 3x3 plus 1x6, 6x1 and, for the augmenting-path algorithm, 3x4 and 4x3 in quick; up to 12-16 bits "
      "in thorough); for Hopcroft-Karp SciPy's matching is a contract stub returning every maximum matching, so Koenig's construction is checked for every "
      "maximum matching. Obligations per path: edge cover, |cover| = maximum matching (independent oracle), no internal assertion reachable.",
      "Trusts z3, the SYMNUM explorer and the harness' exhaustive matching oracle; SciPy's matching is trusted to return *a* maximum matching. Edgeless graphs "
      "are outside the Hopcroft-Karp domain (the code raises).",
      "symbolic execution (SYMNUM path explorer, z3 feasibility) with a contract stub for the SciPy matching",
      "DESIGN.md section 1, C20")

claim("C03", "other",
      "Bounded symbolic check of every arithmetic method on chains of 2-3 (thorough 4) sites: tensor entries and prefactors are solver variables, structures "
      "(bond dims, label patterns, centre position of each operand) are enumerated; obligations are dense identities, the label invariant on the result, the "
      "sector shift and unchanged inputs (dense object AND sector, bond labels, centre of every operand against a snapshot). Complex entries on the two-site structures in the "
      "quick tier, everywhere in thorough. Counterexamples are replayed on the float build before being reported.",
      "Real arithmetic instead of float64; sizes beyond the bounds are outside the claim; operation sequences are covered through the inductive label "
      "invariant (C04 takes it as precondition), not executed as sequences.",
      "symbolic execution of the real NumPy code on z3-valued object arrays + polynomial normal form + z3 (QF_NRA)",
      "DESIGN.md section 1, C03")

claim("C04", "other",
      "One-step induction with LAPACK by contract: from an arbitrary symbolic pre-state satisfying the label invariant, one real _push_cano / canonicalise(stop_idx) / "
      "lossless compress / ensure_*_canonical on Mps, Mpo, MpDm (2-3 sites quick, 4 thorough) keeps the dense object, makes the sites passed isometries (operators: up to the "
      "scalar the code deliberately moves), re-establishes the invariant with the centre where advertised, grows no bond; iter_idx_list/_switch_direction are checked over "
      "symbolic integers for site_num <= 8.",
      "LAPACK's own accuracy is trusted (contract stubs); variational_compress convergence is not covered; longer chains follow by induction, not execution.",
      "symbolic execution with LAPACK contract stubs + polynomial reduction modulo the contract equalities + z3 (QF_NRA/LIA)",
      "DESIGN.md section 1, C04")

claim("C18", "other",
      "svd_qn / eigh_qn glue (gather block, decompose, scatter, relabel, global sort) on fully symbolic coefficient matrices with every label pattern over {0,1} up to 3x2/2x3 "
      "(thorough 3x3, 2x4) plus symbolic-integer and two-component labels: orthonormal columns, product = allowed part of the input, column support matches returned label, "
      "labels add to qntot, sortedness, ValueError iff no block. Krylov: Lanczos structure (exact orthonormality and tridiagonal projection for n=2, zero-divisor fork), "
      "and float-build runs for every (matrix dtype, start-vector dtype, dt kind) at sizes where the Krylov space is the full space (result = expm(dt A) v to 1e-8).",
      "LAPACK by contract. The Krylov accuracy claim (float convergence to tolerance) is NOT covered - see not-applicable parts in DESIGN.md section 2.",
      "symbolic execution with LAPACK contract stubs (symbolic labels fork lazily) + z3",
      "DESIGN.md section 1, C18")

claim("C05", "other",
      "Real compress() under each truncation criterion on canonical 2-3 site chains (symbolic tensors, LAPACK by contract, both directions) with a call-through spy "
      "on the decomposition: bond limit of the right bond index, 1 <= m <= len(sigma), exact threshold set, the updated pair equals the m leading (u,sigma,v) triples, and for one "
      "bond of a canonical state squared distance = discarded weight, norm non-increasing; CompressConfig.compute_m_trunc on symbolic sorted singular values. Trees: the real "
      "TTNS.compress() after canonicalise() on 2-3 (4) node trees with pairwise different per-node limits (all criteria on two-node trees): limit of the own node, kept count, "
      "threshold set, ret_s, labels, one-bond distance identity.",
      "LAPACK by contract; the multi-bond error bound is the textbook consequence of the one-bond identity and is not re-derived; on trees with more than one bond only limits, "
      "counts and labels are obligations (symbolic thresholds on two chained decompositions do not finish).",
      "symbolic execution with LAPACK contract stubs + polynomial reduction modulo orthonormality hypotheses + z3",
      "DESIGN.md section 1, C05")

claim("C06", "other",
      "Representation invariant as one-step induction: add/scale/move_qnidx/Mpo.apply/Mpo.conj_trans with SYMBOLIC integer labels, qntot and operator charge (all values "
      "at once); the real _update_mps (one/two-site, truncating or not) from an arbitrary valid pre-state; constructors (hartree_product_state for every occupation and "
      "centre, Mps.random with symbolic draws incl. the sectors next to the empty/full one with bond limits 1-2, ground_state, MpDm.max_entangled_*); masks; apply leaves its "
      "operands' sector and labels alone. Together with the invariant obligations inside C03/C04/C05 every chain operation "
      "maps valid states to valid states with the advertised sector shift.",
      "Whole optimiser/evolution loops are covered by composition of the step lemmas, not executed end to end; LAPACK by contract; trees under C11.",
      "symbolic execution with symbolic integer labels (z3 LIA+NRA) and LAPACK contract stubs",
      "DESIGN.md section 1, C06")

claim("C16", "other",
      "BasisSHO.op_mat executed with symbolic omega>0 and origin x0 and exact algebraic sqrt(n): commutator, ladder relations, every product symbol vs the written-order "
      "matrix product, powers vs k-fold products away from the truncation edge, shifted origin; spin/electron/multi-electron/HOPS matrices with symbolic factors; "
      "HolsteinModel (schemes 1-4, open/periodic, scalar coupling and an explicit non-symmetric coupling matrix with independent symbolic entries), SpinBosonModel, TI1DModel "
      "term lists evaluated densely with symbolic couplings against the documentation formula (TI1D also with an electron + shifted-oscillator unit cell); BasisSet.copy of every "
      "basis class keeps every local matrix.",
      "BasisSineDVR and the LAPACK-defined DVR rotation are NOT covered (transcendental integrals / eigh); odd general powers carry a float constant and are only tied "
      "numerically; Holstein frequencies concrete.",
      "symbolic execution with exact algebraic square-root atoms + z3 (QF_NRA)",
      "DESIGN.md section 1, C16")

claim("C15", "other",
      "Every public arithmetic operator of Op/OpSum, squeeze_identity, simplify(atol) with symbolic atol (exact documented semantics: merge equal terms, then drop a group iff its "
      "merged factor is <= atol) and __eq__/__hash__ on leaves with symbolic real/complex factors "
      "(pool of 8 operators: multi-site, repeated DoF, identities inside, 1- and 2-component quantum numbers), against an independent dense denotation over three spin DoFs; "
      "expression shapes enumerated to depth 2.",
      "Real arithmetic for scalars (1/s exact); shapes and leaf pool enumerated.",
      "symbolic execution of the real Op/OpSum code on z3-valued factors + z3",
      "DESIGN.md section 1, C15")

claim("C14", "other",
      "(a) The real TdMpsJob.dump_dict against a model file system with solver-chosen crash instant and solver-chosen pre-state of the directory (result file and backup "
      "absent/partial/complete, constrained only by 'a complete file exists'): inductive over histories incl. restarts into a crashed directory. (b) dump->load of "
      "Mps/MpDm/Mpo/MatrixProduct through an in-memory savez/load with symbolic tensors, labels, centre, direction, prefactor; old format versions; float-build round trips for "
      "every (matrix dtype, prefactor kind) combination.",
      "savez modelled as create/partial/complete; rename/remove/replace atomic; NumPy serialisation itself and the spill-to-disk path are not covered.",
      "symbolic execution against a model file system (crash point and directory state as solver integers) + in-memory store round trip",
      "DESIGN.md section 1, C14")

claim("C13", "other",
      "About 35 public methods of Mps/Mpo/MpDm on operands with symbolic tensors/prefactors: operands represent their snapshot afterwards (solver identity), keep labels, "
      "centre, direction; result shares no tensor buffer or label list with an operand; overwrite-the-result-then-observe-the-operands and vice versa. evolve_exact with "
      "symbolic non-zero offset; propagation-and-compression evolve for real/imaginary time; operators that carry charge; float-build instances (dtype-dependent buffer sharing) for "
      "complex chains and nine tree operations on real and complex states.",
      "2-site chains (thorough 3); TDVP schemes not executed; canonicalise/compress are identity stubs inside the evolve harness; documented in-place operations exempt.",
      "symbolic execution + snapshot/overwrite-and-observe obligations decided by z3; buffer overlap via np.shares_memory",
      "DESIGN.md section 1, C13")

claim("C01", "other",
      "The real MPO construction pipeline (Op -> table -> dedup -> Hopcroft-Karp / Hungarian / QR decomposition -> numeric site tensors -> todense) with every term factor and "
      "the offset symbolic; models and table structures enumerated (2-3 sites quick, 4 thorough; spin, electron, oscillator incl. shifted origin, multi-DoF site; duplicate "
      "rows, repeated symbols, constant terms); adjacent swaps and two-swap sequences through try_swap_site. Obligations: dense identity for all factor values, label invariant, "
      "operator charge, bond dimension = maximum matching at every cut. Float-build instances with complex coefficients, duplicate rows and an identity term next to an offset "
      "(what dtype the merged table gets is invisible on the object backend).",
      "Table structure/model enumerated, not symbolic; pivoted QR by contract (permutation and rank solver-chosen, float-tolerance band excluded) for sites + terms <= 5; real "
      "factors in quick.",
      "symbolic execution of the real construction code on z3-valued factors + contract stub for pivoted QR + z3",
      "DESIGN.md section 1, C01")

claim("C07", "other",
      "The batched expectations() fast path (hash-keyed environment cache) against expectation() and the dense definition for every sharing pattern of 2-3 operators over 2-3 "
      "sites (solver-valued state tensors and operator site matrices, optional independent bra, list and reversed list); expectation / transition amplitude incl. complex "
      "data on 2 sites; occupations; one-site, two-site, electronic reduced density matrices against partial traces (Mps and generic real/complex density operators); MpDm "
      "expectation path; query -> in-place modification -> query histories on one object.",
      "Entropies (eigh/log of float spectra) are NOT covered; the scalar prefactor is not part of expectation values by design; complex states only on 2 sites.",
      "symbolic execution with enumerated cache-sharing patterns; polynomial identities decided by normal form + z3",
      "DESIGN.md section 1, C07")

claim("C08", "other",
      "Only the algebraic core is claimed: for fully symbolic state/operator tensors the matrix given to the eigensolver is the projection of H onto the tangent space - "
      "get_ham_direct, get_ham_iterative (diagonal + hop_expr application), the (H-omega)^2 two-layer form, StackedMpo summation, restricted to the quantum-number mask, one- and "
      "two-site, every centre, both directions; incremental environment update = freshly built environment; and the REAL drivers optimize_mps (symbolic omega, 1-/2-site) and "
      "optimize_ttns (labelled trees) for one sweep with the eigensolver replaced by an arbitrary-output contract stub: at every local step the matrix/operator handed to the "
      "eigensolver = projection of H resp. (H-omega)^2 onto the masked coefficients of the current state; every site/bond visited as advertised; labels kept. Operators "
      "with number-conserving (diagonal) blocks and with hopping blocks (local operators not symmetric in their physical indices).",
      "NOT covered: variational upper bound as an executed statement, agreement with exact diagonalisation, Davidson/ARPACK/primme behaviour, sweep convergence (float "
      "eigen-iterations). Normalisation/sector of results follow from C04/C06 lemmas.",
      "symbolic execution of the effective-Hamiltonian builders; bilinear polynomial identities decided by normal form + z3",
      "DESIGN.md section 1, C08")

claim("C09", "other",
      "Only the propagation-and-compression schemes are claimed: with canonicalise/compress as identity (assume-guarantee with C04/C05) the real Mps.evolve on symbolic states, "
      "operators and dt equals the Taylor polynomial with the code's coefficients, the classical RK4 map and the Runge-Kutta map of each non-embedded tableau (constant and "
      "time-dependent H); for the adaptive embedded pairs the accept/reject bookkeeping (rejected trial leaves state and time untouched, accepted trial advances both, "
      "sub-steps add up) with an arbitrary solver-chosen error estimate, up to two trials. Projector splitting: the REAL chain sweeps _evolve_tdvp_ps/_ps2 (real and imaginary "
      "time) with expm_krylov replaced by a contract stub: effective operator at every local step = projection of H on the current state, local steps -+ i dt/2 summing to -i dt per "
      "site and +i dt per bond, identity propagator => state unchanged, input untouched, labels valid. Adaptive Taylor driver: every trial (<= 3 per call, arbitrary error "
      "estimates) = polynomial of its own step on the level's start state. tdvp_vmf: the right-hand side handed to the ODE solver = (1/i) S_L^-1 (1-P_i) F_i S_R^-1 per site "
      "(eigh by contract, dense-block references, 2 sites bond 2; thorough 3 sites / complex), violations reported through float-build twins.",
      "NOT covered: TDVP accuracy/conservation laws as executed statements, tdvp_mu_vmf/cmf, the ODE integration of VMF itself, solver independence, quality of the step-size heuristics (float Krylov/ODE iterations). "
      "Order of accuracy rests on C19.",
      "symbolic execution of the real evolve drivers with identity-compression / Krylov contract stubs; polynomial identities via normal form + z3",
      "DESIGN.md section 1, C09")

claim("C10", "other",
      "Imaginary-time propagation-and-compression steps (Taylor, RK4, general RK) of Mps and MpDm with symbolic tau = integrator image before normalisation; normalize() kinds; "
      "Mpo.exact_propagator with symbolic x and shift (exp uninterpreted): site tensors, scalar placement, labels, EX-space tensors per mode against the eigenpairs of that "
      "mode's own Hamiltonian (numeric coefficients 1e-9; modes sharing a frequency but not the displacement); Mps/MpDm.evolve_exact with symbolic prefactor, time step and "
      "non-zero symbolic energy offset: the offset phase cancels (only cos^2+sin^2=1 used), result carries it, input untouched; MpDm.max_entangled_gs; one ThermalProp step: "
      "the step Hamiltonian is built from h_mpo_model with the last energy as offset and handed to evolve with the given step.",
      "NOT covered: convergence of many imaginary-time steps to the Gibbs state, ThermalProp averages (float iteration limits). canonicalise/compress identity stubs (C04/C05).",
      "symbolic execution with uninterpreted exp/cos/sin and a stated trigonometric lemma + z3",
      "DESIGN.md section 1, C10")

claim("C02", "other",
      "The real TTNO construction with every term factor symbolic on a strided subset of all rooted trees with up to 4 (5) nodes and 0/1/2 basis sets per node (dummy root / "
      "internal / leaf nodes), both graph algorithms: TTNO.todense (also in a permuted order) = sum of tensor products = Mpo of the linear chain; tree constructors (linear, "
      "binary, general_mctdh with all contract labels, t3ns, add_auxiliary_space) keep every basis set exactly once.",
      "QR variant only on chains (C01); real factors; topology enumerated (sampled with VERIF_SEED beyond the stride); print_tree replaced by a stub.",
      "symbolic execution of the real TTNO construction on z3-valued factors, enumerated topologies + z3",
      "DESIGN.md section 1, C02")

claim("C11", "other",
      "TTNS/TTNO with symbolic node tensors on enumerated trees (<= 4/5 nodes, 0-2 basis sets per node, dummy nodes): add, scale, copy, todense(order), TTNO.apply, expectation via "
      "TTNEnviron and via full contraction, norm, canonicalise, push_cano, lossless compress, 1-site / 1-dof / 2-site reduced density matrices, dump/load, invariance under "
      "reordering the children of a node, from_mps, product-state constructor with labels - against an independent contraction of the same symbols.",
      "Entropies NOT covered; LAPACK by contract; the all-topology sweep uses zero labels (one block per node), symmetry blocks are exercised on 5 (8) labelled electron trees in every sector 1..n-1 with repeated labels (add, canonicalise, push_cano both ways, lossless compress, TTNO.apply of a number-conserving operator built by the real constructor, expectation: vector, sector and tree label invariant); partial operators and tree truncation bounds not covered.",
      "symbolic execution of the real tree code with LAPACK contract stubs + independent einsum oracle + z3",
      "DESIGN.md section 1, C11")

claim("C12", "other",
      "PARTIAL (algebraic core only). On enumerated trees with symbolic node/operator tensors and symbolic tau: tree propagation-and-compression (real and imaginary time) = "
      "4th-order Taylor polynomial of the dense operator (and evolve(normalize=...) normalises never / exactly once with the right kind), also for the linear tree against the "
      "chain's dense operator; hop_expr0/1/2 = projection of H psi on every tangent "
      "direction; TTNEnviron incremental updates = fresh environments; the REAL one- and two-site projector-splitting sweeps with the local Krylov propagator replaced by an "
      "arbitrary-output contract stub: effective operator at every local step = projection of H on the state as it is at that step, local steps +-tau/2 summing to tau per node and "
      "-tau per bond, identity propagator => state unchanged; two-site scheme with non-uniform per-node bond limits: every bond obeys the limit of its own node. Variable mean field: "
      "time_derivative_vmf = (1 - A A^h) F_i (S_i^-1)^T per node against dense references (eigh by contract, 2-3 node trees), violations reported through float-build twins.",
      "NOT claimed: accuracy orders, norm/energy conservation, the ODE integration of the variable-mean-field scheme (Krylov / solve_ivp are float iterations outside the family); "
      "sector conservation rests on C11/C06 label handling; canonicalise/compress are identity stubs in the P&C harness (C11 shows they preserve the vector).",
      "symbolic execution of the real tree evolution code with Krylov/LAPACK contract stubs + independent einsum oracle + z3",
      "DESIGN.md section 1, C12")

claim("C17", "other",
      "(a) the real int_to_h + qc_model (+ Mpo) on SYMBOLIC integrals, one solver variable per permutation-symmetry class, 1-3 spatial orbitals (Mpo up to 2), flat/stacked, with/"
      "without quantum numbers, vanishing classes: dense operator = second-quantised Hamiltonian from an independent occupation-number representation (spin-orbital and textbook "
      "spatial form), Hermitian, commutes with N_alpha and N_beta. (b) the real Mpo.try_swap_site on symbolic-factor operators, every neighbouring pair and swap sequences: plain -> "
      "P H P^T, Jordan-Wigner -> F H F^T, labels valid. (c) the real _update_mps with on-the-fly swapping on a symbolic two-site tensor, swap decision a solver variable: state = (P or "
      "F) c iff swapped, model order exchanged, labels valid, sector kept.",
      "4 spatial orbitals outside the bound; swap criteria (entropy/discarded weight: float functions of singular values) replaced by arbitrary values - every decision explored, its "
      "quality not judged; whole optimisation/evolution runs with swapping are covered by composition, not executed; operators for the swap harness are built with Hopcroft-Karp "
      "(QR-built operators only as concrete witnesses, which carry the recorded finding); generic integrals (non-identically-zero combinations are non-zero).",
      "symbolic execution of the real qc_model / swap_site / _update_mps code on z3-valued integrals and tensors with LAPACK contract stubs + occupation-number oracle + z3",
      "DESIGN.md section 1, C17")

for pid in ["C%02d" % i for i in range(1, 21)]:
    if pid not in CHECKS:
        NA[pid] = "check not built yet (build in progress; see DESIGN.md)"

manifest = dict(
    version=1,
    setup_cmd="./setup.sh",
    hooks=dict(guard="RENORMALIZER_VERIF_HOOKS",
               enable="no hooks are needed: checks import /repo's working tree directly and switch the repo's own public backend dtype setter",
               baseline_off_cmd="cd /repo && /venv/bin/python -m pytest -ra -q -p no:cacheprovider --timeout=900 --continue-on-collection-errors",
               source_commits=[], add_only=True),
    engines=[dict(name="symnum", path="/verif/symnum", serves_properties=sorted(CHECKS),
                  kind_free_text="symbolic execution of the real NumPy code on object arrays of symbolic scalars; z3 decides path feasibility and obligations; "
                                 "CrossHair for pure-Python kernels; AST->SMT for literal tables")],
    checks=[CHECKS[k] for k in sorted(CHECKS)],
    not_applicable=[dict(property_id=k, reason=v) for k, v in sorted(NA.items())],
    notes="exit codes: 0 held, 1 VIOLATION (after float replay), 2 inconclusive/harness error. Known findings: /verif/known_findings.txt",
)
json.dump(manifest, open(os.path.join(VERIF, "MANIFEST.json"), "w"), indent=1)
print("manifest: %d checks, %d not applicable" % (len(CHECKS), len(NA)))
