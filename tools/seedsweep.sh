#!/bin/sh
# regression: every archived seed against the checks named in its meta.json (detected_by), on the scratch worktree /tmp/wt/seedrepo
# (create it first: git -C /repo worktree add --detach /tmp/wt/seedrepo HEAD); output was kept as seeded/SWEEP.log; NOTE: rewrites evidence/*.json - re-run the checks on /repo afterwards
cd /verif
for d in seeded/*/; do
  name=$(basename $d)
  ids=$(python3 -c "import json;m=json.load(open('$d/meta.json'));print(' '.join(sorted(m.get('detected_by',{}).keys()) or [m['property']]))")
  out=$(tools/seedverify2.sh /verif/$d $ids 2>&1 | grep -E "exit=|demo:" | tr '\n' ' ' | cut -c1-400)
  echo "$name :: $out"
done
