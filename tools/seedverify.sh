#!/bin/sh
# usage: tools/seedverify.sh <dir with patch.diff, demo.py[, stub/]> <check ids...>
# runs the demo on the clean tree and with the patch (must be exit 0 / exit 1), then the quick checks against the patched tree; restores /repo
D=$1; shift
mkdir -p /tmp/scratch
cd /repo || exit 9
OMP_NUM_THREADS=1 PYTHONPATH=/repo:$D/stub timeout 900 /venv/bin/python $D/demo.py > /tmp/scratch/sv_clean.log 2>&1; rc1=$?
git apply $D/patch.diff || { echo "patch does not apply"; git checkout -- .; exit 9; }
OMP_NUM_THREADS=1 PYTHONPATH=/repo:$D/stub timeout 900 /venv/bin/python $D/demo.py > /tmp/scratch/sv_patched.log 2>&1; rc2=$?
git checkout -- .
echo "demo: clean exit=$rc1 patched exit=$rc2"
cd /verif && exec tools/seedtest.sh $D/patch.diff "$@"
