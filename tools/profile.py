#!/usr/bin/env python3
"""time one instance of each (key, size) class of a check: tools/profile.py checks.c01 quick [limit_s]"""
import sys, time, os
VERIF = os.path.dirname(os.path.dirname(os.path.abspath(__file__)))
sys.path[:0] = [VERIF, os.environ.get("VERIF_REPO", "/repo")]
import logging; logging.disable(logging.CRITICAL)
import importlib
os.environ["VERIF_INSTANCE_LIMIT"] = sys.argv[3] if len(sys.argv) > 3 else "60"
from checks import common
mod = importlib.import_module(sys.argv[1])
ins = mod.instances(sys.argv[2], 0)
print(len(ins), "instances")
seen = {}
for i in ins:
    k = (i.get('key'), len(i.get('table', [])), len(i.get('kinds', [])), str(i.get('bonds', '')))
    if seen.get(k, 0) >= 1:
        continue
    seen[k] = 1
    t = time.time()
    r = common._worker((sys.argv[1], i, None))
    print(k, round(time.time() - t, 1), 'paths', r.get('paths'), 'obl', r.get('obligations'), 'proved', r.get('proved'), (r.get('inconclusive') or '')[:80].replace("\n", " "),
          'viol', len(r.get('violations', [])), 'exc', [e[0] for e in r.get('exceptions', [])][:2], 'unk', len(r.get('unknown', [])))
