#!/bin/sh
# usage: tools/seedtest.sh <patch file> <check ids...>   applies the patch to /repo, runs the quick checks, restores the tree
P=$1; shift
cd /repo && git apply "$P" || { echo "patch does not apply"; exit 9; }
git diff --stat | tail -1
cd /verif
for ID in "$@"; do
  ./check $ID --tier quick > /tmp/scratch/seed_$ID.log 2>&1; rc=$?
  echo "$ID exit=$rc  VIOLATION lines: $(grep -c '^VIOLATION' /tmp/scratch/seed_$ID.log)  keys: $(grep '  key=' /tmp/scratch/seed_$ID.log | sed 's/ obligation=.*//' | sort | uniq -c | sort -rn | head -3 | tr '\n' ';' | cut -c1-300)"
done
cd /repo && git checkout -- . && git status --short | head -2
