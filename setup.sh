#!/bin/sh
# Build the verification venv offline: overlay on /venv (repo deps) + crosshair/z3/cvc5 from the wheelhouse.
set -e
V=/verif/.venv
if [ ! -x "$V/bin/python" ] || ! "$V/bin/python" -c "import z3, crosshair, numpy" 2>/dev/null; then
  rm -rf "$V"
  /venv/bin/python -m venv "$V"
  SP=$("$V/bin/python" -c "import sysconfig;print(sysconfig.get_paths()['purelib'])")
  printf "import site; site.addsitedir('/venv/lib/python3.12/site-packages')\n" > "$SP/_verif_overlay.pth"
  PIP_NO_INDEX=1 "$V/bin/pip" install -q --no-index --find-links /opt/veriftools/wheels z3-solver crosshair-tool cvc5 jsonschema >/dev/null
fi
"$V/bin/python" -c "import z3, crosshair, numpy, scipy; print('verif venv ok', z3.get_version_string())"
