"""Path explorer + harness context for SYMNUM.

A harness is a function  h(ctx) -> None  that builds inputs through ctx (symbols in symbolic
mode, numbers from a model in concrete/replay mode), calls the real Renormalizer code and
registers obligations with ctx.check(name, cond).  In symbolic mode the function is re-executed
once per path (DFS over decision prefixes); conditions are expr.B terms decided by z3.
"""
import sys
import time
import traceback
import linecache
from fractions import Fraction

import numpy as np

from . import expr as X
from . import sym as S
from . import solve


class PathAbort(BaseException):
    """ends the current path silently (infeasible / documented precondition not met)"""


class Inconclusive(Exception):
    pass


class PreconditionFailed(Exception):
    """concrete mode: the model does not satisfy a harness assumption (replay invalid)"""


# source lines whose AssertionError is a documented precondition, not a violation
PRECONDITION_ASSERTS = (
    "assert mt.any()",
    "assert ret_mpsi.any()",
    "assert new_mp[self.qnidx].array.any()",
    "assert nrmv > 0",
    "assert self.check_left_canonical()",
    "assert self.check_right_canonical()",
)


class Path:
    def __init__(self):
        self.trace = []        # list of bool choices at genuine decision points
        self.pc = []           # list of B (decisions and assumptions)
        self.assume_tags = []  # tags of definedness assumptions
        self.obligations = []  # (name, B, info)
        self.exception = None  # (type name, message, where)
        self.notes = {}


class Explorer:
    def __init__(self, tr=None, stats=None, max_paths=3000, feas_ms=200):
        self.tr = tr or solve.Translator()
        self.stats = stats or solve.Stats()
        self.max_paths = max_paths
        self.feas_ms = feas_ms
        self.path = None
        self.prefix = None
        self.known = None
        self.worklist = None
        self.decisions_made = 0

    # ---- called from SymBool.__bool__
    def decide(self, b):
        if b.op == "true":
            return True
        if b.op == "false":
            return False
        k = self.known.get(b.id)
        if k is not None:
            return k
        p = self.path
        pos = len(p.trace)
        if pos < len(self.prefix):
            choice = self.prefix[pos]
        else:
            nb = X.bnot(b)
            rt, _ = solve.feasible(self.tr, p.pc + [b], self.stats, self.feas_ms)
            rf, _ = solve.feasible(self.tr, p.pc + [nb], self.stats, self.feas_ms)
            if rt == "unsat" and rf == "unsat":
                raise PathAbort()
            if rt == "unsat":
                choice = False
            elif rf == "unsat":
                choice = True
            else:
                choice = True
                self.worklist.append(p.trace + [False])
        p.trace.append(choice)
        self._learn(b, choice)
        self.decisions_made += 1
        return choice

    def _learn(self, b, val):
        nb = X.bnot(b)
        self.known[b.id] = val
        self.known[nb.id] = not val
        self.path.pc.append(b if val else nb)

    def assume(self, b, tag=""):
        if b.op == "true":
            return
        if b.op == "false":
            raise PathAbort()
        k = self.known.get(b.id)
        if k is True:
            return
        if k is False:
            raise PathAbort()
        self._learn(b, True)
        self.path.assume_tags.append(tag)

    def concretize(self, x, lo, hi):
        """exhaustive concretisation of a bounded integer term by forking: every value in lo..hi the
        path condition admits gets its own path"""
        if not isinstance(x, S.Sym):
            return int(x)
        v = x.const_value()
        if v is not None:
            return int(v)
        for k in range(lo, hi + 1):
            if self.decide(X.eq(x.re, X.const(k, "I"))):
                return k
        raise PathAbort()

    # ---- driver
    def explore(self, fn):
        """run fn() once per path; fn registers obligations through the Ctx bound to this explorer.
        returns list of Path"""
        self.worklist = [[]]
        paths = []
        S.set_explorer(self)
        try:
            while self.worklist:
                if len(paths) >= self.max_paths:
                    raise Inconclusive("path budget %d exhausted" % self.max_paths)
                self.prefix = self.worklist.pop()
                self.path = Path()
                self.known = {}
                self._anycount = 0
                try:
                    fn(self.path)
                except PathAbort:
                    self.path.notes["aborted"] = True
                except S.SymbolicEscape as ex:
                    raise Inconclusive("symbolic escape: %s\n%s" % (ex, traceback.format_exc()))
                except X.PolyOverflow:
                    raise Inconclusive("polynomial overflow")
                except MemoryError:
                    raise Inconclusive("memory cap of the worker reached while building terms")
                except AssertionError as ex:
                    tb = traceback.extract_tb(sys.exc_info()[2])
                    fr = tb[-1]
                    line = (fr.line or "").strip()
                    if any(line.startswith(w) for w in PRECONDITION_ASSERTS):
                        self.path.notes["aborted"] = True
                    else:
                        self.path.exception = ("AssertionError", str(ex)[:300], "%s:%d %s" % (fr.filename, fr.lineno, line))
                except Exception as ex:
                    tb = traceback.extract_tb(sys.exc_info()[2])
                    fr = tb[-1]
                    self.path.exception = (type(ex).__name__, str(ex)[:300], "%s:%d %s" % (fr.filename, fr.lineno, (fr.line or "").strip()))
                    self.path.notes["traceback"] = traceback.format_exc()[-3000:]
                paths.append(self.path)
        finally:
            S.set_explorer(None)
        return paths


# ---------------------------------------------------------------------------------------------
class Ctx:
    """what a harness sees.  mode 'sym' or 'concrete'."""

    def __init__(self, mode, env=None, path=None, explorer=None, rtol=1e-7):
        self.mode = mode
        self.env = env or {}
        self.path = path
        self.explorer = explorer
        self.rtol = rtol
        self.results = []   # concrete mode: (name, ok)
        self.inputs = {}    # name -> value handed out (for replay files)

    @property
    def symbolic(self):
        return self.mode == "sym"

    # ---- inputs
    def real(self, name, default=0.37):
        if self.symbolic:
            return S.Sym.R(name)
        v = float(self.env.get(name, default))
        self.inputs[name] = v
        return v

    def cplx(self, name, default=0.37 + 0.21j):
        if self.symbolic:
            return S.Sym.C(name)
        v = complex(float(self.env.get(name + ".re", default.real)), float(self.env.get(name + ".im", default.imag)))
        self.inputs[name + ".re"] = v.real
        self.inputs[name + ".im"] = v.imag
        return v

    def integer(self, name, default=0):
        if self.symbolic:
            return S.Sym.I(name)
        v = int(self.env.get(name, default))
        self.inputs[name] = v
        return v

    def boolean(self, name, default=False):
        if self.symbolic:
            return S.SymBool(X.bvar(name))
        v = bool(self.env.get(name, default))
        self.inputs[name] = v
        return v

    def array(self, name, shape, kind="real"):
        """array of fresh inputs.  symbolic: object array; concrete: float/complex/int ndarray"""
        shape = tuple(int(s) for s in shape)
        if self.symbolic:
            return S.sym_array(name, shape, kind)
        dt = {"real": float, "cplx": complex, "int": int}[kind]
        a = np.zeros(shape, dtype=dt)
        for n, idx in enumerate(np.ndindex(*shape)):
            nm = "%s[%s]" % (name, ",".join(map(str, idx)))
            # deterministic non-trivial defaults for variables the model does not mention
            d = ((n * 7 + len(name) * 3) % 11 - 5) / 7.0 + 0.05
            if kind == "real":
                a[idx] = self.real(nm, d)
            elif kind == "cplx":
                a[idx] = self.cplx(nm, complex(d, -d / 3 + 0.1))
            else:
                a[idx] = self.integer(nm, 0)
        return a

    # ---- assumptions
    def assume(self, cond, tag="harness"):
        if self.symbolic:
            if isinstance(cond, (bool, np.bool_)):
                if not cond:
                    raise PathAbort()
                return
            self.explorer.assume(S.as_b(cond), tag)
        else:
            if not bool(cond):
                raise PreconditionFailed(tag)

    def lemma_sos(self, terms):
        """Mathematical lemma handed to the path condition: sum_i |t_i|^2 >= 0 for harness-built terms
        t_i.  (Justification: instance of  forall s. sum s_i^2 >= 0.)  It lets the explorer discard the
        exact-arithmetic-infeasible `x < 0` branches that the code keeps for float round-off."""
        if not self.symbolic:
            return
        acc = X.ZERO
        for t in np.asarray(terms, dtype=object).reshape(-1):
            t = S._lift(t)
            acc = X.add(acc, X.mul(t.re, t.re))
            if t.im is not None:
                acc = X.add(acc, X.mul(t.im, t.im))
        self.explorer.assume(X.le(X.ZERO, acc), "lemma:sum-of-squares>=0")

    # ---- relations (return B in symbolic mode, bool in concrete mode)
    def eq(self, a, b, scale=None):
        if self.symbolic:
            return _eq_b(a, b)
        a = np.asarray(_unwrap(a))
        b = np.asarray(_unwrap(b))
        if a.shape != b.shape:
            try:
                a, b = np.broadcast_arrays(a, b)
            except ValueError:
                return False
        if a.dtype == object or b.dtype == object:
            a = a.astype(complex)
            b = b.astype(complex)
        if scale is None:
            scale = max(1.0, float(np.max(np.abs(a))) if a.size else 1.0, float(np.max(np.abs(b))) if b.size else 1.0)
        return bool(np.all(np.abs(a - b) <= self.rtol * scale))

    def le(self, a, b):
        if self.symbolic:
            a, b = S._lift(a), S._lift(b)
            return X.le(a.re, b.re)
        return bool(a <= b + self.rtol * max(1.0, abs(a), abs(b)))

    def lt(self, a, b):
        if self.symbolic:
            a, b = S._lift(a), S._lift(b)
            return X.lt(a.re, b.re)
        return bool(a < b)

    def all(self, conds):
        conds = list(conds)
        if self.symbolic:
            return X.band(*[S.as_b(c) for c in conds])
        return all(bool(c) for c in conds)

    def any(self, conds):
        conds = list(conds)
        if self.symbolic:
            return X.bor(*[S.as_b(c) for c in conds])
        return any(bool(c) for c in conds)

    def implies(self, a, b):
        if self.symbolic:
            return X.implies(S.as_b(a), S.as_b(b))
        return (not bool(a)) or bool(b)

    def neg(self, a):
        if self.symbolic:
            return X.bnot(S.as_b(a))
        return not bool(a)

    def nonzero(self, a):
        """|a| != 0 as a relation"""
        if self.symbolic:
            a = S._lift(a)
            return X.bnot(a.eq_b(S.Sym(X.ZERO)))
        return abs(a) > 1e-12

    # ---- obligations
    def check(self, name, cond, info=None):
        if self.symbolic:
            self.path.obligations.append((name, S.as_b(cond), info))
        else:
            self.results.append((name, bool(cond), info))


def _unwrap(a):
    if hasattr(a, "array") and isinstance(getattr(a, "array"), np.ndarray):
        return a.array
    return a


def _eq_b(a, b):
    a = _unwrap(a)
    b = _unwrap(b)
    if isinstance(a, np.ndarray) or isinstance(b, np.ndarray):
        a = np.asarray(a)
        b = np.asarray(b)
        if a.shape != b.shape:
            try:
                a, b = np.broadcast_arrays(a, b)
            except ValueError:
                return X.FALSE
        conj = []
        for x, y in zip(a.flat, b.flat):
            conj.append(S._lift(x).eq_b(S._lift(y)))
        return X.band(*conj)
    la, lb = S._lift(a), S._lift(b)
    if la is None or lb is None:
        return X.TRUE if a == b else X.FALSE
    return la.eq_b(lb)


# ---------------------------------------------------------------------------------------------
class Report:
    """result of running one harness instance symbolically"""

    def __init__(self, label):
        self.label = label
        self.paths = 0
        self.aborted = 0
        self.obligations = 0     # (path, obligation) pairs
        self.proved = 0
        self.by_normal_form = 0
        self.unknown = []        # (name, detail)
        self.violations = []     # dict(name, env, detail)
        self.exceptions = []     # dict(exc, env)
        self.witnessed = {}      # obligation name -> bool (a sat path reaches it)
        self.stats = solve.Stats()
        self.samples = []
        self.wall_s = 0.0
        self.inconclusive = None

    def ok(self):
        return not self.violations and not self.exceptions and not self.unknown and self.inconclusive is None \
            and all(self.witnessed.values())

    def to_dict(self):
        return dict(label=self.label, paths=self.paths, aborted=self.aborted, obligations=self.obligations,
                    proved=self.proved, by_normal_form=self.by_normal_form, unknown=self.unknown[:5],
                    violations=[dict(name=v["name"], detail=v.get("detail")) for v in self.violations[:5]],
                    exceptions=[e["exc"] for e in self.exceptions[:5]], witnessed=self.witnessed,
                    stats=self.stats.as_dict(), wall_s=round(self.wall_s, 3), inconclusive=self.inconclusive)


def run_symbolic(harness, label="", max_paths=3000, budget_s=30.0, quick_ms=3000, expect_exceptions=(),
                 keep_samples=2, witness=True):
    """explore harness(ctx) over all paths and discharge every obligation.
    expect_exceptions: exception type names that are legitimate outcomes (documented raises)."""
    t0 = time.time()
    rep = Report(label)
    tr = solve.Translator()
    ex = Explorer(tr, rep.stats, max_paths=max_paths)

    def fn(path):
        ctx = Ctx("sym", path=path, explorer=ex)
        harness(ctx)

    try:
        paths = ex.explore(fn)
    except Inconclusive as e:
        rep.inconclusive = str(e)[:2000]
        rep.wall_s = time.time() - t0
        return rep
    rep.paths = len(paths)
    feas_cache = {}

    def path_sat(p):
        key = tuple(b.id for b in p.pc)
        if key not in feas_cache:
            if not p.pc:
                feas_cache[key] = ("sat", None)
            else:
                feas_cache[key] = solve.feasible_full(tr, p.pc, rep.stats, budget_s)
        return feas_cache[key]

    for p in paths:
        if p.notes.get("aborted"):
            rep.aborted += 1
            continue
        if p.exception is not None:
            if p.exception[0] in expect_exceptions:
                continue
            r, m = path_sat(p)
            if r == "sat":
                env = solve.model_env(tr, m, p.pc) if m is not None else {}
                rep.exceptions.append(dict(exc=p.exception, env=env, tb=p.notes.get("traceback")))
            elif r == "unknown":
                rep.unknown.append(("exception-path-feasibility", str(p.exception)))
            continue
        rules = X.Rules(p.pc) if any(b.op == "eq0" for b in p.pc) else None
        for name, goal, info in p.obligations:
            rep.obligations += 1
            rep.witnessed.setdefault(name, False)
            if goal.op == "true":
                rep.by_normal_form += 1
            r, m = solve.discharge(tr, p.pc, goal, rep.stats, budget_s=budget_s, quick_ms=quick_ms, rules=rules)
            if r == "unsat":
                rep.proved += 1
                if len(rep.samples) < keep_samples and goal.op != "true":
                    rep.samples.append(dict(obligation=name, path_condition=[X.showb(b, 3) for b in p.pc[:4]],
                                            goal=X.showb(goal, 4)[:600], verdict="unsat"))
            elif r == "sat":
                env = m if isinstance(m, dict) else solve.model_env(tr, m, p.pc + [goal])
                rep.violations.append(dict(name=name, env=env, detail=info, goal=X.showb(goal, 4)[:400]))
            else:
                rep.unknown.append((name, X.showb(goal, 3)[:300]))
        if witness:
            need = [n for n, _, _ in p.obligations if not rep.witnessed.get(n)]
            if need:
                r, _ = path_sat(p)
                if r == "sat":
                    for n in need:
                        rep.witnessed[n] = True
    if not witness:
        for n in rep.witnessed:
            rep.witnessed[n] = True
    rep.wall_s = time.time() - t0
    return rep


def run_concrete(harness, env, rtol=1e-7):
    """replay: run the harness with numbers.  returns (results, inputs, exception or None)"""
    ctx = Ctx("concrete", env=env, rtol=rtol)
    exc = None
    try:
        harness(ctx)
    except PreconditionFailed as e:
        return None, ctx.inputs, ("PreconditionFailed", str(e))
    except Exception as e:
        exc = (type(e).__name__, str(e)[:300], traceback.format_exc()[-1500:])
    return ctx.results, ctx.inputs, exc
