"""Symbolic scalars that ride inside NumPy object arrays.

Sym     complex-capable number: re, im are expr.E (im None = structurally real)
SymBool boolean; truth-testing asks the active Explorer (path forking)
"""
from fractions import Fraction
import numbers
import numpy as np

from . import expr as X


class SymbolicEscape(TypeError):
    """a symbolic value was forced into a concrete Python/C number"""


_explorer = None


def set_explorer(e):
    global _explorer
    _explorer = e


def get_explorer():
    return _explorer


def _lift(x):
    if isinstance(x, Sym):
        return x
    if isinstance(x, (bool, np.bool_)):
        return Sym(X.const(int(x), "I"))
    if isinstance(x, (int, np.integer)):
        return Sym(X.const(int(x), "I"))
    if isinstance(x, (float, np.floating)):
        return Sym(X.const(Fraction(float(x))))
    if isinstance(x, Fraction):
        return Sym(X.const(x))
    if isinstance(x, (complex, np.complexfloating)):
        x = complex(x)
        return Sym(X.const(Fraction(x.real)), X.const(Fraction(x.imag)))
    if isinstance(x, np.ndarray) and x.ndim == 0:
        return _lift(x.item())
    if isinstance(x, SymBool):
        return Sym(X.ite(x.b, X.const(1, "I"), X.const(0, "I")))
    return None


class Sym:
    __slots__ = ("re", "im")

    def __init__(self, re, im=None):
        self.re = re
        if im is not None and im.op == "const" and im.args[0] == 0:
            im = None
        self.im = im

    # ---- constructors
    @staticmethod
    def R(name):
        return Sym(X.var(name))

    @staticmethod
    def C(name):
        return Sym(X.var(name + ".re"), X.var(name + ".im"))

    @staticmethod
    def I(name):
        return Sym(X.var(name, "I"))

    # ---- inspection
    @property
    def is_const(self):
        return X.is_const(self.re) and (self.im is None or X.is_const(self.im))

    def const_value(self):
        r = X.const_value(self.re)
        if r is None:
            return None
        if self.im is None:
            return r
        i = X.const_value(self.im)
        if i is None:
            return None
        if i == 0:
            return r
        return complex(float(r), float(i))

    @property
    def real(self):
        return Sym(self.re) if self.im is not None else self

    @property
    def imag(self):
        return Sym(self.im) if self.im is not None else Sym(X.ZERO)

    def conjugate(self):
        if self.im is None:
            return self
        return Sym(self.re, X.neg(self.im))

    conj = conjugate

    def item(self, *a):
        return self

    def ravel(self):
        out = np.empty(1, dtype=object)
        out[0] = self
        return out

    flatten = ravel

    def reshape(self, *shape):
        return self.ravel().reshape(*shape)

    # numpy-scalar look-alikes
    ndim = 0
    shape = ()
    dtype = np.dtype(object)

    # ---- arithmetic
    def __add__(self, o):
        o = _lift(o)
        if o is None:
            return NotImplemented
        if self.im is None and o.im is None:
            return Sym(X.add(self.re, o.re))
        im = o.im if self.im is None else (self.im if o.im is None else X.add(self.im, o.im))
        return Sym(X.add(self.re, o.re), im)

    __radd__ = __add__

    def __neg__(self):
        return Sym(X.neg(self.re), None if self.im is None else X.neg(self.im))

    def __pos__(self):
        return self

    def __sub__(self, o):
        o = _lift(o)
        if o is None:
            return NotImplemented
        return self + (-o)

    def __rsub__(self, o):
        o = _lift(o)
        if o is None:
            return NotImplemented
        return o + (-self)

    def __mul__(self, o):
        o = _lift(o)
        if o is None:
            return NotImplemented
        a, b, c, d = self.re, self.im, o.re, o.im
        if b is None and d is None:
            return Sym(X.mul(a, c))
        if b is None:
            return Sym(X.mul(a, c), X.mul(a, d))
        if d is None:
            return Sym(X.mul(a, c), X.mul(b, c))
        return Sym(X.sub(X.mul(a, c), X.mul(b, d)), X.add(X.mul(a, d), X.mul(b, c)))

    __rmul__ = __mul__

    def _recip(self):
        if self.im is None:
            _assume_nonzero(self.re)
            return Sym(X.inv(self.re))
        n2 = X.add(X.mul(self.re, self.re), X.mul(self.im, self.im))
        _assume_nonzero(n2)
        i = X.inv(n2)
        return Sym(X.mul(self.re, i), X.neg(X.mul(self.im, i)))

    def __truediv__(self, o):
        o = _lift(o)
        if o is None:
            return NotImplemented
        if o.im is None and o.re.op == "const":
            k = X.const(Fraction(1) / o.re.args[0])
            return Sym(X.mul(self.re, k), None if self.im is None else X.mul(self.im, k))
        return self * o._recip()

    def __rtruediv__(self, o):
        o = _lift(o)
        if o is None:
            return NotImplemented
        return o * self._recip()

    def __pow__(self, k):
        kk = _lift(k)
        if kk is not None and kk.is_const:
            kv = kk.const_value()
            if isinstance(kv, (int, Fraction)) and Fraction(kv).denominator == 1:
                n = int(kv)
                if n < 0:
                    return (self ** (-n))._recip()
                r = Sym(X.ONE)
                base = self
                while n:
                    if n & 1:
                        r = r * base
                    n >>= 1
                    if n:
                        base = base * base
                return r
            if kv == Fraction(1, 2):
                return self.sqrt()
            if isinstance(kv, (int, Fraction)) and self.im is None:
                # fractional power of a real: uninterpreted (only compared against constants by step controllers)
                return Sym(X.uf("pow", self.re, X.const(Fraction(kv))))
        if kk is None and isinstance(k, float) and self.im is None:
            return Sym(X.uf("pow", self.re, X.const(Fraction(k))))
        raise SymbolicEscape("unsupported power %r" % (k,))

    def __rpow__(self, base):
        raise SymbolicEscape("symbolic exponent")

    def __abs__(self):
        if self.im is None:
            c = X.const_value(self.re)
            if c is not None:
                return Sym(X.const(abs(c), self.re.sort))
            return Sym(X.ite(X.le(X.ZERO, self.re), self.re, X.neg(self.re)))
        return Sym(X.add(X.mul(self.re, self.re), X.mul(self.im, self.im))).sqrt()

    def sqrt(self):
        if self.im is not None:
            raise SymbolicEscape("sqrt of complex symbolic")
        c = X.const_value(self.re)
        if c is not None:
            s = X.sqrt(X.const(c))
            if s.op == "const":
                return Sym(s)
            import math
            return Sym(X.const(Fraction(math.sqrt(float(c)))))   # the code's own float constant
        ex = get_explorer()
        if ex is not None:
            ex.assume(X.le(X.ZERO, self.re), "sqrt-arg>=0")
        return Sym(X.sqrt(self.re))

    def exp(self):
        if self.is_const:
            import cmath
            v = self.const_value()
            if v == 0:
                return Sym(X.ONE)
            return _lift(cmath.exp(complex(v)) if isinstance(v, complex) else float(np.exp(float(v))))
        if self.im is None:
            return Sym(X.uf("exp", X.canon(self.re)))
        er = X.uf("exp", X.canon(self.re)) if not (X.const_value(self.re) == 0) else X.ONE
        c, s_ = Sym(self.im).cos(), Sym(self.im).sin()
        return Sym(X.mul(er, c.re), X.mul(er, s_.re))

    def cos(self):
        if self.im is not None:
            raise SymbolicEscape("cos complex")
        arg, flip = _even_odd_arg(self.re)
        return Sym(X.uf("cos", arg))

    def sin(self):
        if self.im is not None:
            raise SymbolicEscape("sin complex")
        arg, flip = _even_odd_arg(self.re)
        r = Sym(X.uf("sin", arg))
        return -r if flip else r

    def log(self):
        if self.im is not None:
            raise SymbolicEscape("log complex")
        return Sym(X.uf("log", self.re))

    # ---- comparisons
    def _cmp(self, o, kind):
        o = _lift(o)
        if o is None:
            return NotImplemented
        if self.im is not None or o.im is not None:
            # numpy orders complex lexicographically; not modelled
            raise SymbolicEscape("ordering of complex symbolic values")
        if kind == "lt":
            b = X.lt(self.re, o.re)
        elif kind == "le":
            b = X.le(self.re, o.re)
        elif kind == "gt":
            b = X.lt(o.re, self.re)
        else:
            b = X.le(o.re, self.re)
        return _mkbool(b)

    def __lt__(self, o):
        return self._cmp(o, "lt")

    def __le__(self, o):
        return self._cmp(o, "le")

    def __gt__(self, o):
        return self._cmp(o, "gt")

    def __ge__(self, o):
        return self._cmp(o, "ge")

    def eq_b(self, o):
        o = _lift(o)
        b = X.eq(self.re, o.re)
        if self.im is not None or o.im is not None:
            b = X.band(b, X.eq(self.im if self.im is not None else X.ZERO, o.im if o.im is not None else X.ZERO))
        return b

    def __eq__(self, o):
        ol = _lift(o)
        if ol is None:
            return NotImplemented if not isinstance(o, (str, type(None), tuple, list)) else False
        return _mkbool(self.eq_b(ol))

    def __ne__(self, o):
        ol = _lift(o)
        if ol is None:
            return NotImplemented if not isinstance(o, (str, type(None), tuple, list)) else True
        return _mkbool(X.bnot(self.eq_b(ol)))

    def __hash__(self):
        return 0

    def __bool__(self):
        b = X.bnot(self.eq_b(Sym(X.ZERO)))
        r = _mkbool(b)
        return r if isinstance(r, bool) else bool(r)

    # ---- escapes
    def __float__(self):
        v = self.const_value()
        if v is None or isinstance(v, complex):
            raise SymbolicEscape("float() of symbolic %r" % (self,))
        return float(v)

    def __complex__(self):
        v = self.const_value()
        if v is None:
            raise SymbolicEscape("complex() of symbolic %r" % (self,))
        return complex(v)

    def __int__(self):
        v = self.const_value()
        if v is None or isinstance(v, complex) or Fraction(v).denominator != 1:
            raise SymbolicEscape("int() of symbolic %r" % (self,))
        return int(v)

    __index__ = __int__

    def __repr__(self):
        if self.im is None:
            return "Sym(%s)" % X.show(self.re, 4)
        return "Sym(%s + i*%s)" % (X.show(self.re, 4), X.show(self.im, 4))


def _even_odd_arg(e):
    """canonical sign of a trigonometric argument: (arg', flipped) with arg' = +-arg whose leading coefficient is positive"""
    try:
        p = X.poly(e)
    except X.PolyOverflow:
        return e, False
    if not p:
        return X.ZERO, False
    lead = min(p)
    if p[lead] < 0:
        return X.canon(X.neg(e)), True
    return X.canon(e), False


numbers.Number.register(Sym)


def _assume_nonzero(e):
    if e.op == "const":
        if e.args[0] == 0:
            raise ZeroDivisionError("symbolic division by constant zero")
        return
    ex = get_explorer()
    if ex is not None:
        if getattr(ex, "div_mode", "assume") == "fork":
            # faithful model of the float build (the package runs NumPy with divide/invalid = raise):
            # the zero-divisor branch is explored and ends in an exception
            if ex.decide(X.eq(e, X.ZERO)):
                raise ZeroDivisionError("symbolic divisor is zero on this path")
            return
        ex.assume(X.bnot(X.eq(e, X.ZERO)), "divisor!=0")


def _mkbool(b):
    if b.op == "true":
        return True
    if b.op == "false":
        return False
    return SymBool(b)


class SymBool:
    __slots__ = ("b",)

    def __init__(self, b):
        self.b = b

    def __bool__(self):
        ex = get_explorer()
        if ex is None:
            raise SymbolicEscape("truth value of symbolic condition outside an exploration: %r" % (self.b,))
        return ex.decide(self.b)

    def __invert__(self):
        return _mkbool(X.bnot(self.b))

    def __and__(self, o):
        o = as_b(o)
        return _mkbool(X.band(self.b, o))

    __rand__ = __and__

    def __or__(self, o):
        o = as_b(o)
        return _mkbool(X.bor(self.b, o))

    __ror__ = __or__

    def __xor__(self, o):
        o = as_b(o)
        return _mkbool(X.bor(X.band(self.b, X.bnot(o)), X.band(X.bnot(self.b), o)))

    __rxor__ = __xor__

    def __eq__(self, o):
        o = as_b(o)
        return _mkbool(X.bor(X.band(self.b, o), X.band(X.bnot(self.b), X.bnot(o))))

    def __hash__(self):
        return 0

    def __repr__(self):
        return "SymBool(%s)" % X.showb(self.b, 4)


def as_b(x):
    """coerce python bool / SymBool / expr.B to expr.B"""
    if isinstance(x, X.B):
        return x
    if isinstance(x, SymBool):
        return x.b
    if isinstance(x, (bool, np.bool_)):
        return X.TRUE if x else X.FALSE
    raise TypeError("not a boolean: %r" % (x,))


# ------------------------------------------------------------------ array helpers
class SymArray(np.ndarray):
    """object ndarray whose any()/all() build ONE disjunction/conjunction instead of forking per element
    (NumPy's logical_or.reduce would truth-test element after element)."""
    __array_priority__ = 20

    def any(self, axis=None, out=None, keepdims=False, **kw):
        if axis is None and out is None and not keepdims and self.dtype == object:
            ex = get_explorer()
            if ex is not None and getattr(ex, "any_mode", "exact") == "opaque":
                # used when entries are huge terms: `x.any()` only ever guards `assert x.any()` preconditions
                for v in self.flat:
                    if not isinstance(v, (Sym, SymBool)) and v:
                        return True
                # taken as an assumed precondition ("the tensor is not identically zero"): no fork
                ex._anycount = getattr(ex, "_anycount", 0) + 1
                return True
            bs = []
            for v in self.flat:
                if isinstance(v, Sym):
                    b = X.bnot(v.eq_b(Sym(X.ZERO)))
                elif isinstance(v, SymBool):
                    b = v.b
                else:
                    b = X.TRUE if v else X.FALSE
                if b.op == "true":
                    return True
                bs.append(b)
            return _mkbool(X.bor(*bs))
        return np.asarray(self).any(axis=axis, out=out, keepdims=keepdims, **kw)

    def all(self, axis=None, out=None, keepdims=False, **kw):
        if axis is None and out is None and not keepdims and self.dtype == object:
            bs = []
            for v in self.flat:
                if isinstance(v, Sym):
                    b = X.bnot(v.eq_b(Sym(X.ZERO)))
                elif isinstance(v, SymBool):
                    b = v.b
                else:
                    b = X.TRUE if v else X.FALSE
                if b.op == "false":
                    return False
                bs.append(b)
            return _mkbool(X.band(*bs))
        return np.asarray(self).all(axis=axis, out=out, keepdims=keepdims, **kw)


def symview(a):
    """view object ndarrays as SymArray (no copy); everything else unchanged"""
    if type(a) is np.ndarray and a.dtype == object:
        return a.view(SymArray)
    if isinstance(a, tuple):
        return tuple(symview(x) for x in a)
    return a



def has_sym(a):
    """True if a (array-like) holds any Sym"""
    if isinstance(a, Sym):
        return True
    if isinstance(a, np.ndarray):
        if a.dtype != object:
            return False
        for x in a.flat:
            if isinstance(x, (Sym, SymBool)):
                return True
        return False
    if isinstance(a, (list, tuple)):
        return any(has_sym(x) for x in a)
    return False


def sym_array(name, shape, kind="real"):
    """object array of fresh symbols named name[i,j,..]"""
    a = np.empty(shape, dtype=object)
    mk = {"real": Sym.R, "cplx": Sym.C, "int": Sym.I}[kind]
    for idx in np.ndindex(*shape):
        a[idx] = mk("%s[%s]" % (name, ",".join(map(str, idx))))
    return a.view(SymArray)


def lift_array(a):
    """float/complex/int ndarray -> object array of constant Syms"""
    a = np.asarray(a)
    out = np.empty(a.shape, dtype=object)
    for idx in np.ndindex(*a.shape):
        out[idx] = _lift(a[idx])
    return out
