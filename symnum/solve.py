"""z3 back end: translation of expr terms and the discharge portfolio."""
import os
import time
from fractions import Fraction
import z3

from . import expr as X


class Translator:
    def __init__(self):
        self.memo = {}      # node id -> z3 term
        self.keep = []      # keep nodes alive
        self.axioms = []    # z3 side axioms for sqrt atoms
        self.ax_ids = set()
        self.funcs = {}

    def _coerce(self, t, want_real):
        if want_real and t.sort() == z3.IntSort():
            return z3.ToReal(t)
        return t

    def e(self, node):
        memo = self.memo
        if node.id in memo:
            return memo[node.id]
        stack = [node]
        while stack:
            n = stack[-1]
            if n.id in memo:
                stack.pop()
                continue
            op = n.op
            if op == "const":
                c = n.args[0]
                if n.sort == "I":
                    memo[n.id] = z3.IntVal(c)
                else:
                    c = Fraction(c)
                    memo[n.id] = z3.RealVal("%d/%d" % (c.numerator, c.denominator)) if c.denominator != 1 else z3.RealVal(c.numerator)
                stack.pop()
            elif op == "var":
                memo[n.id] = z3.Int(n.args[0]) if n.sort == "I" else z3.Real(n.args[0])
                stack.pop()
            elif op in ("add", "mul"):
                # flatten the chain
                ops = []
                todo = [n]
                while todo:
                    m = todo.pop()
                    if m.op == op and m.id not in memo:
                        todo.append(m.args[1])
                        todo.append(m.args[0])
                    else:
                        ops.append(m)
                missing = [m for m in ops if m.id not in memo]
                if missing:
                    stack.extend(missing)
                    continue
                real = n.sort == "R"
                zs = [self._coerce(memo[m.id], real) for m in ops]
                if op == "add":
                    memo[n.id] = z3.Sum(zs) if len(zs) > 1 else zs[0]
                else:
                    memo[n.id] = z3.Product(zs) if len(zs) > 1 else zs[0]
                stack.pop()
            elif op == "neg":
                a = n.args[0]
                if a.id not in memo:
                    stack.append(a)
                    continue
                memo[n.id] = -memo[a.id]
                stack.pop()
            elif op == "inv":
                a = n.args[0]
                if a.id not in memo:
                    stack.append(a)
                    continue
                memo[n.id] = z3.RealVal(1) / self._coerce(memo[a.id], True)
                stack.pop()
            elif op == "sqrt":
                a = n.args[0]
                if a.id not in memo:
                    stack.append(a)
                    continue
                s = z3.Real("sqrt!%d" % n.id)
                memo[n.id] = s
                if n.id not in self.ax_ids:
                    self.ax_ids.add(n.id)
                    self.axioms.append(s >= 0)
                    self.axioms.append(s * s == self._coerce(memo[a.id], True))
                stack.pop()
            elif op == "ite":
                c, a, b = n.args
                miss = [m for m in (a, b) if m.id not in memo]
                if miss:
                    stack.extend(miss)
                    continue
                real = n.sort == "R"
                memo[n.id] = z3.If(self.b(c), self._coerce(memo[a.id], real), self._coerce(memo[b.id], real))
                stack.pop()
            elif op == "uf":
                miss = [m for m in n.args[1:] if m.id not in memo]
                if miss:
                    stack.extend(miss)
                    continue
                name = n.args[0]
                k = len(n.args) - 1
                f = self.funcs.get((name, k))
                if f is None:
                    f = z3.Function(name, *([z3.RealSort()] * (k + 1)))
                    self.funcs[(name, k)] = f
                memo[n.id] = f(*[self._coerce(memo[m.id], True) for m in n.args[1:]])
                stack.pop()
            else:
                raise AssertionError(op)
            self.keep.append(n)
        return memo[node.id]

    def b(self, node):
        key = ("b", node.id)
        if key in self.memo:
            return self.memo[key]
        op = node.op
        if op == "true":
            r = z3.BoolVal(True)
        elif op == "false":
            r = z3.BoolVal(False)
        elif op == "bvar":
            r = z3.Bool(node.args[0])
        elif op == "not":
            r = z3.Not(self.b(node.args[0]))
        elif op == "and":
            r = z3.And([self.b(x) for x in node.args])
        elif op == "or":
            r = z3.Or([self.b(x) for x in node.args])
        else:
            t = self.e(node.args[0])
            if op == "le0":
                r = t <= 0
            elif op == "lt0":
                r = t < 0
            else:
                r = t == 0
        self.memo[key] = r
        self.keep.append(node)
        return r


class Stats:
    def __init__(self):
        self.queries = 0
        self.unsat = 0
        self.sat = 0
        self.unknown = 0
        self.solver_s = 0.0
        self.by_stage = {}

    def merge(self, o):
        self.queries += o.queries
        self.unsat += o.unsat
        self.sat += o.sat
        self.unknown += o.unknown
        self.solver_s += o.solver_s
        for k, v in o.by_stage.items():
            self.by_stage[k] = self.by_stage.get(k, 0) + v

    def as_dict(self):
        return dict(queries=self.queries, unsat=self.unsat, sat=self.sat, unknown=self.unknown,
                    solver_s=round(self.solver_s, 3), by_stage=self.by_stage)


_WD = {"pid": None, "deadline": None, "ctx": None}


def _watchdog_loop():
    while True:
        time.sleep(1.0)
        d, c = _WD["deadline"], _WD["ctx"]
        if d is not None and c is not None and time.time() > d:
            _WD["deadline"] = None
            try:
                c.interrupt()
            except Exception:
                pass


def _watchdog_arm(ctx, deadline):
    import threading
    if _WD["pid"] != os.getpid():          # (re)start after a fork: threads do not survive it
        _WD["pid"] = os.getpid()
        t = threading.Thread(target=_watchdog_loop, daemon=True)
        t.start()
    _WD["ctx"], _WD["deadline"] = ctx, deadline


def _check(solver_factory, formulas, timeout_ms, stats, stage):
    s = solver_factory()
    s.set("timeout", int(timeout_ms))
    try:
        # z3's wall-clock timeout is not honoured inside some non-linear preprocessing steps; the resource limit is
        s.set("rlimit", int(max(timeout_ms, 100) * 30000))
    except z3.Z3Exception:
        pass
    for f in formulas:
        s.add(f)
    t0 = time.time()
    # third line of defence: neither `timeout` nor `rlimit` is honoured in every z3 code path (a query inside the pivoted-QR contract ran for > 15 min), and a
    # Python signal handler cannot interrupt a C call - ONE watchdog thread per process interrupts the context a few seconds after the deadline of the running
    # query; the answer is then `unknown`
    _watchdog_arm(s.ctx, time.time() + timeout_ms / 1000.0 + 5.0)
    try:
        r = s.check()
    except z3.Z3Exception:
        r = z3.unknown
    finally:
        _watchdog_arm(None, None)
    dt = time.time() - t0
    stats.queries += 1
    stats.solver_s += dt
    rs = str(r)
    if rs == "unsat":
        stats.unsat += 1
    elif rs == "sat":
        stats.sat += 1
    else:
        stats.unknown += 1
    stats.by_stage[stage + ":" + rs] = stats.by_stage.get(stage + ":" + rs, 0) + 1
    model = None
    if rs == "sat":
        try:
            model = s.model()
        except z3.Z3Exception:
            model = None
    return rs, model


def _default():
    return z3.Solver()


def _nlsat():
    return z3.Then(z3.With("simplify", som=True), "solve-eqs", "nlsat").solver()


def _qfnra():
    return z3.Then("simplify", "solve-eqs", "qfnra-nlsat").solver()


def discharge(tr, hyps, goal, stats, budget_s=30.0, quick_ms=3000, rules=None):
    """Decide  hyps |= goal.  Returns (verdict, model) with verdict in
    'unsat' (goal holds for all values), 'sat' (counterexample model), 'unknown'.
    rules: optional expr.Rules built from the equalities among hyps - the goal's polynomials are first
    reduced modulo them (sound: adds multiples of hypotheses); the reduced goal goes to z3."""
    if goal.op != "true" and rules is not None and rules.rules:
        g2 = rules.reduce_b(goal)
        if g2.op == "true":
            stats.queries += 1
            stats.unsat += 1
            stats.by_stage["hyp-rewriting:unsat"] = stats.by_stage.get("hyp-rewriting:unsat", 0) + 1
            return "unsat", None
        if g2.op != "false":
            goal = g2
    if goal.op == "true":
        stats.queries += 1
        stats.unsat += 1
        stats.by_stage["normal-form:unsat"] = stats.by_stage.get("normal-form:unsat", 0) + 1
        return "unsat", None
    # the goal (or each of its conjuncts) literally is one of the hypotheses (hash-consed nodes): nothing to solve, and z3 would
    # have to wade through the non-linear rest of the path condition to see it
    hypset = set()
    for h in hyps:
        hypset.add(h.id)
        if h.op == "and":
            hypset.update(x.id for x in h.args)

    def by_hyp(g):
        if g.op == "true" or g.id in hypset:
            return True
        if g.op == "and":
            return all(by_hyp(x) for x in g.args)
        if g.op == "or":
            return any(by_hyp(x) for x in g.args)
        return False
    if by_hyp(goal):
        stats.queries += 1
        stats.unsat += 1
        stats.by_stage["is-hypothesis:unsat"] = stats.by_stage.get("is-hypothesis:unsat", 0) + 1
        return "unsat", None
    env = random_counterexample(hyps, goal)
    if env is None:
        env = float_counterexample(hyps, goal)
    if env is not None:
        # a concrete falsifying assignment found by evaluation (exact rational arithmetic): the caller replays it on the
        # float build before anything is reported; z3 is not needed for the `sat` direction here
        stats.queries += 1
        stats.sat += 1
        stats.by_stage["sampled-model:sat"] = stats.by_stage.get("sampled-model:sat", 0) + 1
        return "sat", env
    ng = tr.b(X.bnot(goal))
    zh = [tr.b(h) for h in hyps]
    ax = list(tr.axioms)
    # stage 1: goal alone
    r, m = _check(_default, [ng] + ax, quick_ms, stats, "alone")
    if r == "unsat":
        return r, None
    stages = [("pc-default", _default, quick_ms), ("pc-nlsat", _nlsat, quick_ms)]
    if budget_s * 1000 > quick_ms:
        stages += [("pc-default-full", _default, budget_s * 1000), ("pc-nlsat-full", _nlsat, budget_s * 1000)]
    for name, fac, to in stages:
        r, m = _check(fac, zh + ax + [ng], to, stats, name)
        if r in ("unsat", "sat"):
            return r, m
    return "unknown", None


def _holds(b, env, memo, slack):
    """robust truth of a boolean term under float evaluation: inequalities and equalities are read with `slack` (positive = generous, negative = strict)"""
    op = b.op
    if op == "true":
        return True
    if op == "false":
        return False
    if op == "bvar":
        return bool(env[b.args[0]])
    if op == "not":
        return not _holds(b.args[0], env, memo, -slack)
    if op == "and":
        return all(_holds(x, env, memo, slack) for x in b.args)
    if op == "or":
        return any(_holds(x, env, memo, slack) for x in b.args)
    v = X.evaluate(b.args[0], env, memo)
    if isinstance(v, complex):
        v = v.real
    if op == "le0":
        return v <= slack
    if op == "lt0":
        return v < slack
    if op == "eq0":
        return abs(v) <= max(slack, 1e-13)
    raise AssertionError(op)


def float_counterexample(hyps, goal, tries=None):
    """candidate counterexample by floating-point evaluation when algebraic / transcendental atoms (sqrt, exp, cos, ...) rule out exact sampling: every
    hypothesis must hold with a margin and the goal must fail with a margin.  The caller replays the assignment on the float build before anything is
    reported, so a spurious candidate ends as NOT-REPRODUCED, never as a violation."""
    import random
    vs = {}
    seen = set()
    for n in list(hyps) + [goal]:
        X.variables(n, vs, seen)
    if not vs or len(vs) > 400:
        return None
    if tries is None:
        # many tries only where exact sampling is impossible (algebraic / uninterpreted atoms present); elsewhere this stage is a cheap extra look before z3
        # - that is: an uninterpreted fractional power (the step controllers' `ratio ** (1/order)`).  For sqrt / exp / cos atoms the original 16 assignments of order one are
        # kept: with tiny arguments (1/sqrt(omega), x^4 ...) float rounding of the evaluated goal exceeds the failure margin and produces candidates that do not replay
        special = any(isinstance(X._nodes[i], X.E) and X._nodes[i].op == "uf" and X._nodes[i].args[0] == "pow" for i in seen)
        tries = 800 if special else 16
    rng = random.Random(4321)
    for t in range(tries):
        env = {}
        for name, v in vs.items():
            if isinstance(v, X.B):
                env[name] = rng.random() < 0.5
            elif v.sort == "I":
                env[name] = rng.randint(-2, 3)
            elif t < 16:
                env[name] = round(rng.uniform(0.2, 1.5) * rng.choice((1, 1, -1)), 3)
            else:
                # magnitudes spread over many decades below ~3 (larger values would let float rounding of high-degree terms exceed the failure margin): step controllers compare fractional powers of ratios with fixed thresholds, which values of order one never cross
                env[name] = float("%.3g" % (10.0 ** rng.uniform(-6, 0.5))) * rng.choice((1, 1, 1, 1, 1, 1, 1, -1))
        memo = {}
        try:
            if not all(_holds(h, env, memo, -1e-7 if h.op in ("le0", "lt0") else 1e-12) for h in hyps):
                continue
            if not _holds(goal, env, memo, 1e-5):
                return env
        except (ZeroDivisionError, KeyError, OverflowError, ValueError, TypeError):
            continue
    return None


def random_counterexample(hyps, goal, tries=24):
    """look for an assignment (small rationals / integers) that satisfies every hypothesis and falsifies the goal, by exact
    evaluation.  Only attempted when no algebraic/uninterpreted atoms are involved.  Returns env or None."""
    import random
    vs = {}
    seen = set()
    for n in list(hyps) + [goal]:
        X.variables(n, vs, seen)
    for node_id in seen:
        n = X._nodes[node_id]
        if isinstance(n, X.E) and n.op in ("sqrt", "uf"):
            return None
    if not vs or len(vs) > 400:
        return None
    rng = random.Random(12345)
    for t in range(tries):
        env = {}
        for name, v in vs.items():
            if isinstance(v, X.B):
                env[name] = rng.random() < 0.5
            elif v.sort == "I":
                env[name] = rng.randint(-2, 3)
            else:
                env[name] = Fraction(rng.randint(-12, 12), rng.choice([1, 2, 3, 4, 5, 7])) if t else Fraction(rng.randint(1, 9), 4)
        memo = {}
        try:
            if not all(X.evaluate_b(h, env, memo) for h in hyps):
                continue
            if not X.evaluate_b(goal, env, memo):
                return env
        except (ZeroDivisionError, KeyError, OverflowError):
            continue
    return None


def feasible(tr, hyps, stats, timeout_ms=200):
    """quick satisfiability look at a path condition"""
    zh = [tr.b(h) for h in hyps] + list(tr.axioms)
    r, m = _check(_default, zh, timeout_ms, stats, "feas")
    return r, m


def feasible_full(tr, hyps, stats, budget_s=30.0):
    zh = [tr.b(h) for h in hyps] + list(tr.axioms)
    for name, fac, to in (("wit-default", _default, 3000), ("wit-nlsat", _nlsat, 3000),
                          ("wit-default-full", _default, budget_s * 1000), ("wit-nlsat-full", _nlsat, budget_s * 1000)):
        r, m = _check(fac, zh, to, stats, name)
        if r in ("sat", "unsat"):
            return r, m
    return "unknown", None


def model_env(tr, model, nodes):
    """extract {var name: Fraction/int/bool} for all variables below the given nodes"""
    env = {}
    vs = {}
    seen = set()
    for n in nodes:
        X.variables(n, vs, seen)
    for name, v in vs.items():
        if isinstance(v, X.B):
            val = model.eval(z3.Bool(name), model_completion=True)
            env[name] = z3.is_true(val)
            continue
        zt = z3.Int(name) if v.sort == "I" else z3.Real(name)
        val = model.eval(zt, model_completion=True)
        if z3.is_int_value(val):
            env[name] = val.as_long()
        elif z3.is_rational_value(val):
            env[name] = Fraction(val.numerator_as_long(), val.denominator_as_long())
        elif z3.is_algebraic_value(val):
            ap = val.approx(20)
            env[name] = Fraction(ap.numerator_as_long(), ap.denominator_as_long())
        else:
            env[name] = Fraction(0)
    return env


def cvc5_recheck(tr, hyps, goal, timeout_s=20):
    """differential re-check of an unsat verdict with cvc5 on the SMT-LIB text produced by z3.
    returns 'unsat' / 'sat' / 'unknown' / 'unavailable'"""
    try:
        import cvc5  # noqa
        from cvc5 import Kind  # noqa
    except Exception:
        return "unavailable"
    s = z3.Solver()
    for h in hyps:
        s.add(tr.b(h))
    for a in tr.axioms:
        s.add(a)
    s.add(tr.b(X.bnot(goal)))
    text = s.to_smt2()
    try:
        slv = cvc5.Solver()
        slv.setOption("tlimit", str(int(timeout_s * 1000)))
        slv.setLogic("ALL")
        ip = cvc5.InputParser(slv)
        ip.setStringInput(cvc5.InputLanguage.SMT_LIB_2_6, text, "q")
        sm = ip.getSymbolManager()
        res = None
        while True:
            cmd = ip.nextCommand()
            if cmd.isNull():
                break
            out = cmd.invoke(slv, sm)
            if "sat" in str(out):
                res = str(out).strip()
        if res in ("unsat", "sat"):
            return res
        return "unknown"
    except Exception as ex:  # pragma: no cover
        return "unknown"
