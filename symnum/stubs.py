"""Glue that lets Renormalizer's real code run on object arrays of Sym.

install()            process-wide: backend dtypes -> object, NumPy intrinsics that cannot work on
                     objects are wrapped (delegating to NumPy for ordinary arrays), float/complex
                     shadows placed into the modules under analysis, Matrix.astype recompiled from
                     the current source without its vacuous assert, logging silenced.
lapack(mode)         contract stubs for scipy.linalg.{qr,rq,svd,eigh} inside svd_qn / other modules.
Everything here is part of the claim of any check that uses it (DESIGN.md 0.2).
"""
import ast
import inspect
import logging
import sys
import textwrap
import types
import itertools
from fractions import Fraction

import numpy as np

from . import expr as X
from . import sym as S
from .sym import Sym, SymBool

_installed = False
_orig = {}
_fresh = itertools.count()


def fresh_name(prefix):
    return "%s!%d" % (prefix, next(_fresh))


def reset_fresh():
    global _fresh
    _fresh = itertools.count()


# ------------------------------------------------------------------ float / complex shadows
class _ShadowMeta(type):
    def __instancecheck__(cls, inst):
        if isinstance(inst, Sym):
            return cls._accept(inst)
        return isinstance(inst, cls._builtin)

    def __call__(cls, *args, **kw):
        if len(args) == 1 and not kw:
            x = args[0]
            if isinstance(x, np.ndarray) and x.dtype == object and x.size == 1:
                x = x.reshape(-1)[0]
            if hasattr(x, "array") and isinstance(getattr(x, "array", None), np.ndarray) and x.array.dtype == object and x.array.size == 1:
                x = x.array.reshape(-1)[0]
            if isinstance(x, Sym):
                if x.is_const:
                    v = x.const_value()
                    return cls._builtin(v) if not (cls._builtin is float and isinstance(v, complex)) else x
                if cls._builtin is float and x.im is not None:
                    raise S.SymbolicEscape("float() of complex symbolic")
                return x
        return cls._builtin(*args, **kw)


class SymFloat(metaclass=_ShadowMeta):
    _builtin = float

    @staticmethod
    def _accept(s):
        return s.im is None


class SymComplex(metaclass=_ShadowMeta):
    _builtin = complex

    @staticmethod
    def _accept(s):
        return True


class SymInt(metaclass=_ShadowMeta):
    _builtin = int

    @staticmethod
    def _accept(s):
        return s.im is None and s.re.sort == "I"


SHADOW_MODULES = [
    "renormalizer.model.op", "renormalizer.mps.mp", "renormalizer.mps.mps", "renormalizer.mps.mpo",
    "renormalizer.mps.mpdm", "renormalizer.mps.lib", "renormalizer.mps.matrix", "renormalizer.mps.gs",
    "renormalizer.lib.krylov.krylov", "renormalizer.utils.rk", "renormalizer.mps.symbolic_mpo",
    "renormalizer.model.model", "renormalizer.model.basis", "renormalizer.mps.thermalprop",
    "renormalizer.tn.tree", "renormalizer.tn.treebase", "renormalizer.tn.node", "renormalizer.tn.time_evolution",
    "renormalizer.tn.symbolic_ttno", "renormalizer.model.h_qc", "renormalizer.utils.configs", "renormalizer.utils.quantity",
]


def shadow(modname, ints=False):
    mod = sys.modules.get(modname)
    if mod is None:
        try:
            mod = __import__(modname, fromlist=["x"])
        except Exception:
            return
    mod.float = SymFloat
    mod.complex = SymComplex
    if ints:
        mod.int = SymInt


# ------------------------------------------------------------------ numpy intrinsics
def _is_symarr(a):
    if isinstance(a, (Sym, SymBool)):
        return True
    if hasattr(a, "array") and isinstance(getattr(a, "array", None), np.ndarray):
        a = a.array
    if isinstance(a, np.ndarray) and a.dtype == object:
        return S.has_sym(a)
    if isinstance(a, (list, tuple)):
        return any(_is_symarr(x) for x in a)
    return False


def _arr(a):
    if hasattr(a, "array") and isinstance(getattr(a, "array", None), np.ndarray):
        return a.array
    return np.asarray(a)


def sym_max(vals):
    vals = [S._lift(v) for v in vals]
    acc = vals[0]
    for v in vals[1:]:
        acc = Sym(X.ite(X.le(v.re, acc.re), acc.re, v.re))
    return acc


def sym_min(vals):
    vals = [S._lift(v) for v in vals]
    acc = vals[0]
    for v in vals[1:]:
        acc = Sym(X.ite(X.le(acc.re, v.re), acc.re, v.re))
    return acc


def _wrap_reduce(orig, red):
    def f(a, axis=None, *args, **kw):
        if not _is_symarr(a):
            return orig(a, axis, *args, **kw) if axis is not None or args or kw else orig(a)
        a = _arr(a)
        if axis is None:
            return red(list(a.flat))
        a = np.moveaxis(a, axis, -1)
        out = np.empty(a.shape[:-1], dtype=object)
        for idx in np.ndindex(*a.shape[:-1]):
            out[idx] = red(list(a[idx]))
        return out
    f.__name__ = getattr(orig, "__name__", "f")
    return f


def sym_norm(x, ord=None, axis=None, keepdims=False):
    if not _is_symarr(x):
        return _orig["linalg.norm"](x, ord, axis, keepdims)
    if isinstance(x, Sym):
        return abs(x)
    x = _arr(x)
    assert ord in (None, 2, "fro") and axis is None, "norm variant not modelled"
    acc = Sym(X.ZERO)
    for v in x.flat:
        v = S._lift(v)
        acc = acc + v.real * v.real
        if v.im is not None:
            acc = acc + v.imag * v.imag
    return acc.sqrt()


def sym_iscomplex(x):
    if isinstance(x, Sym):
        if x.im is None:
            return False
        return S._mkbool(X.bnot(X.eq(x.im, X.ZERO)))
    if _is_symarr(x):
        a = _arr(x)
        out = np.empty(a.shape, dtype=object)
        for idx in np.ndindex(*a.shape):
            out[idx] = sym_iscomplex(a[idx]) if isinstance(a[idx], Sym) else bool(_orig["iscomplex"](a[idx]))
        return out
    return _orig["iscomplex"](x)


def sym_isclose_b(a, b):
    """exact-equality model of np.isclose on symbolic data (tolerances are float concerns)"""
    a = _arr(a) if not isinstance(a, Sym) else a
    b = _arr(b) if not isinstance(b, Sym) else b
    if isinstance(a, np.ndarray) or isinstance(b, np.ndarray):
        a, b = np.broadcast_arrays(np.asarray(a, dtype=object), np.asarray(b, dtype=object))
        out = np.empty(a.shape, dtype=object)
        for idx in np.ndindex(*a.shape):
            out[idx] = S._mkbool(S._lift(a[idx]).eq_b(S._lift(b[idx])))
        return out
    return S._mkbool(S._lift(a).eq_b(S._lift(b)))


def sym_isclose(a, b, rtol=1e-5, atol=1e-8, equal_nan=False):
    if not (_is_symarr(a) or _is_symarr(b)):
        return _orig["isclose"](a, b, rtol, atol, equal_nan)
    return sym_isclose_b(a, b)


def sym_allclose(a, b, rtol=1e-5, atol=1e-8, equal_nan=False):
    if not (_is_symarr(a) or _is_symarr(b)):
        return _orig["allclose"](a, b, rtol, atol, equal_nan)
    r = sym_isclose_b(a, b)
    if isinstance(r, np.ndarray):
        return S._mkbool(X.band(*[S.as_b(x) for x in r.flat]))
    return r


def sym_assert_allclose(actual, desired, rtol=1e-7, atol=0, *args, **kw):
    if not (_is_symarr(actual) or _is_symarr(desired)):
        return _orig["testing.assert_allclose"](actual, desired, rtol, atol, *args, **kw)
    if not sym_allclose(actual, desired):
        raise AssertionError("assert_allclose (exact model) failed")


def sym_iscomplexobj(x):
    if isinstance(x, Sym):
        return x.im is not None
    if _is_symarr(x):
        return any(isinstance(v, Sym) and v.im is not None for v in _arr(x).flat)
    return _orig["iscomplexobj"](x)


def _wrap_unary(name, meth):
    orig = getattr(np, name)

    class W:
        """ufunc look-alike: falls through to NumPy except for bare Sym scalars"""
        def __call__(self, x, *a, **k):
            if isinstance(x, Sym):
                return getattr(x, meth)()
            return orig(x, *a, **k)

        def __getattr__(self, item):
            return getattr(orig, item)
    return W()


def sym_real(x):
    if isinstance(x, Sym):
        return x.real
    if _is_symarr(x):
        a = _arr(x)
        out = np.empty(a.shape, dtype=object)
        for idx in np.ndindex(*a.shape):
            out[idx] = S._lift(a[idx]).real
        return out
    return _orig["real"](x)


def sym_imag(x):
    if isinstance(x, Sym):
        return x.imag
    if _is_symarr(x):
        a = _arr(x)
        out = np.empty(a.shape, dtype=object)
        for idx in np.ndindex(*a.shape):
            out[idx] = S._lift(a[idx]).imag
        return out
    return _orig["imag"](x)


SYMBOLIC_RANDOM = False


class RandProxy:
    """np.random look-alike: with SYMBOLIC_RANDOM on, draws are fresh solver variables ("every draw")"""

    def __getattr__(self, item):
        return getattr(np.random, item)

    @staticmethod
    def _fresh(shape):
        if isinstance(shape, (int, np.integer)):
            shape = (int(shape),)
        return S.sym_array(fresh_name("rnd"), tuple(int(x) for x in shape), "real")

    def random(self, size=None):
        if SYMBOLIC_RANDOM and size is not None:
            return self._fresh(size)
        return np.random.random(size)

    random_sample = random

    def rand(self, *shape):
        if SYMBOLIC_RANDOM and shape:
            return self._fresh(shape)
        return np.random.rand(*shape)


class NpProxy:
    """module-local stand-in for the `np` / `xp` name of a module under analysis: array *creators* with
    an unspecified or floating dtype return object arrays (filled with exact 0/1) so that symbols can be
    stored into them; everything else is NumPy itself."""

    def __init__(self, real=np):
        self._real = real

    def __getattr__(self, item):
        if item == "random":
            return RandProxy()
        r = getattr(self._real, item)
        if callable(r) and not isinstance(r, (type, np.ufunc)) and item not in ("dtype", "errstate", "finfo", "iinfo"):
            def wrapped(*a, **k):
                return S.symview(r(*a, **k))
            wrapped.__name__ = item
            try:
                object.__setattr__(self, item, wrapped)
            except Exception:
                pass
            return wrapped
        if isinstance(r, types.ModuleType) and item in ("linalg", "random", "testing", "add", "fft"):
            return r
        return r

    def array(self, a, dtype=None, *args, **kw):
        if dtype in (SymComplex, SymFloat) or (dtype in (complex, float) and _is_symarr(a)):
            return S.symview(np.array(_arr(a), dtype=object, *args, **kw))
        return S.symview(np.array(a, dtype, *args, **kw))

    def asarray(self, a, dtype=None, *args, **kw):
        if isinstance(a, S.SymArray) and (dtype is None or dtype is object or dtype == object):
            return a
        return S.symview(np.asarray(a, dtype, *args, **kw))

    @staticmethod
    def _obj(dtype):
        if dtype is None:
            return True
        try:
            return np.dtype(dtype).kind in "fcO"
        except TypeError:
            return False

    def zeros(self, shape, dtype=None, *a, **k):
        if self._obj(dtype):
            z = np.empty(shape, dtype=object)
            z[...] = 0
            return z.view(S.SymArray)
        return np.zeros(shape, dtype, *a, **k)

    def ones(self, shape, dtype=None, *a, **k):
        if self._obj(dtype):
            z = np.empty(shape, dtype=object)
            z[...] = 1
            return z.view(S.SymArray)
        return np.ones(shape, dtype, *a, **k)

    def eye(self, N, M=None, k=0, dtype=None, **kw):
        if self._obj(dtype):
            e = np.eye(N, M, k)
            z = np.empty(e.shape, dtype=object)
            for idx in np.ndindex(*e.shape):
                z[idx] = int(e[idx])
            return z.view(S.SymArray)
        return np.eye(N, M, k, dtype, **kw)

    def identity(self, n, dtype=None):
        return self.eye(n, dtype=dtype)

    def zeros_like(self, a, dtype=None, *args, **k):
        a = _arr(a)
        if dtype is None and a.dtype != object:
            return np.zeros_like(a, *args, **k)
        return self.zeros(a.shape, dtype if dtype is not None else object)

    def _elementwise(self, name, x):
        f = getattr(np, name)
        if isinstance(x, Sym):
            return getattr(x, name)()
        if isinstance(x, np.ndarray) and x.dtype == object:
            out = np.empty(x.shape, dtype=object)
            for idx in np.ndindex(*x.shape):
                v = x[idx]
                out[idx] = getattr(v, name)() if isinstance(v, Sym) else S._lift(f(v))
            return out.view(S.SymArray)
        return f(x)

    def sqrt(self, x, *a, **k):
        return self._elementwise("sqrt", x) if not (a or k) else np.sqrt(x, *a, **k)

    def exp(self, x, *a, **k):
        return self._elementwise("exp", x) if not (a or k) else np.exp(x, *a, **k)

    def diag(self, v, k=0):
        v = _arr(v)
        if v.dtype == object and v.ndim == 1 and k == 0:
            n = len(v)
            z = np.empty((n, n), dtype=object)
            z[...] = 0
            for i in range(n):
                z[i, i] = v[i]
            return z.view(S.SymArray)
        return S.symview(np.diag(v, k))


NP_PROXY_MODULES = [
    "renormalizer.mps.matrix", "renormalizer.mps.mpdm", "renormalizer.mps.mps", "renormalizer.mps.mpo", "renormalizer.mps.mp", "renormalizer.mps.lib",
    "renormalizer.mps.svd_qn", "renormalizer.mps.gs", "renormalizer.mps.hop_expr", "renormalizer.mps.thermalprop",
    "renormalizer.tn.tree", "renormalizer.tn.treebase", "renormalizer.tn.node", "renormalizer.tn.time_evolution", "renormalizer.tn.hop_expr",
    "renormalizer.tn.gs",
]


def np_proxy(modname):
    mod = sys.modules.get(modname)
    if mod is None:
        try:
            mod = __import__(modname, fromlist=["x"])
        except Exception:
            return
    p = NpProxy()
    if "np" in mod.__dict__:
        mod.np = p
    if "xp" in mod.__dict__:
        mod.xp = p


def install(extra_shadow=()):
    """idempotent process-wide installation"""
    global _installed
    if _installed:
        return
    _installed = True
    logging.disable(logging.CRITICAL)
    if "print_tree" not in sys.modules:
        m = types.ModuleType("print_tree")

        class print_tree:  # noqa
            def __init__(self, *a, **k):
                self.rows = []

        m.print_tree = print_tree
        sys.modules["print_tree"] = m
    from renormalizer.mps.backend import backend
    backend.dtypes = (object, object)

    _orig.update({
        "max": np.max, "amax": np.amax, "min": np.min, "amin": np.amin,
        "linalg.norm": np.linalg.norm, "iscomplex": np.iscomplex, "isclose": np.isclose,
        "allclose": np.allclose, "testing.assert_allclose": np.testing.assert_allclose,
        "iscomplexobj": np.iscomplexobj, "real": np.real, "imag": np.imag,
    })
    np.max = np.amax = _wrap_reduce(_orig["max"], sym_max)
    np.min = np.amin = _wrap_reduce(_orig["min"], sym_min)
    np.linalg.norm = sym_norm
    np.iscomplex = sym_iscomplex
    np.isclose = sym_isclose
    np.allclose = sym_allclose
    np.testing.assert_allclose = sym_assert_allclose
    np.real = sym_real
    np.imag = sym_imag
    import scipy.linalg
    _orig["scipy.linalg.norm"] = scipy.linalg.norm
    scipy.linalg.norm = lambda a, *args, **kw: sym_norm(a, *args, **kw) if _is_symarr(a) else _orig["scipy.linalg.norm"](a, *args, **kw)

    import renormalizer.mps.matrix as mx
    _recompile_astype(mx)
    for m in list(SHADOW_MODULES) + list(extra_shadow):
        shadow(m)
    for m in NP_PROXY_MODULES:
        np_proxy(m)


def _recompile_astype(mx):
    """Matrix.astype from the current source, minus its complex->real assert (vacuous when both
    backend dtypes are `object`)."""
    src = textwrap.dedent(inspect.getsource(mx.Matrix.astype))
    tree = ast.parse(src)
    fn = tree.body[0]
    fn.body = [st for st in fn.body if not isinstance(st, ast.Assert)]
    ast.fix_missing_locations(tree)
    ns = {}
    exec(compile(tree, mx.__file__, "exec"), mx.__dict__, ns)
    mx.Matrix.astype = ns["astype"]


# ------------------------------------------------------------------ LAPACK contract stubs
class LapackContract:
    """fresh-symbol outputs constrained by the decomposition's contract (assumed on the path)"""

    def __init__(self, ctx, cplx=False):
        self.ctx = ctx
        self.cplx = cplx
        self.calls = []
        self.eigvals = []

    def _fresh(self, tag, shape, real=False):
        kind = "real" if (real or not self.cplx) else "cplx"
        return S.sym_array(fresh_name(tag), shape, kind)

    def _assume_eq(self, a, b, tag):
        for x, y in zip(np.asarray(a, dtype=object).flat, np.asarray(b, dtype=object).flat):
            self.ctx.explorer.assume(S._lift(x).eq_b(S._lift(y)), tag)

    @staticmethod
    def _H(a):
        out = np.empty(a.T.shape, dtype=object)
        for idx in np.ndindex(*a.T.shape):
            out[idx] = S._lift(a.T[idx]).conjugate()
        return out

    def qr(self, a, mode="full", pivoting=False, **kw):
        if not _is_symarr(a):
            import scipy.linalg
            return _orig_lapack["qr"](a, mode=mode, pivoting=pivoting, **kw)
        assert not pivoting
        m, n = a.shape
        k = min(m, n) if mode == "economic" else m
        q = self._fresh("Q", (m, k))
        r = np.empty((k, n), dtype=object)
        rr = self._fresh("R", (k, n))
        for i in range(k):
            for j in range(n):
                r[i, j] = rr[i, j] if j >= i else Sym(X.ZERO)
        self._assume_eq(q @ r, a, "qr:QR=A")
        self._assume_eq(self._H(q) @ q, np.eye(k, dtype=object), "qr:QhQ=I")
        self.calls.append(("qr", a.shape, mode))
        return q, r

    def rq(self, a, mode="full", **kw):
        if not _is_symarr(a):
            return _orig_lapack["rq"](a, mode=mode, **kw)
        m, n = a.shape
        k = min(m, n) if mode == "economic" else n
        q = self._fresh("Q", (k, n))
        rr = self._fresh("R", (m, k))
        r = np.empty((m, k), dtype=object)
        # upper triangular in the RQ sense: r[i, j] = 0 for j - (k - m) < i  (only matters for shape; keep general)
        for i in range(m):
            for j in range(k):
                r[i, j] = rr[i, j] if (j - (k - m)) >= i else Sym(X.ZERO)
        self._assume_eq(r @ q, a, "rq:RQ=A")
        self._assume_eq(q @ self._H(q), np.eye(k, dtype=object), "rq:QQh=I")
        self.calls.append(("rq", a.shape, mode))
        return r, q

    def svd(self, a, full_matrices=True, compute_uv=True, lapack_driver="gesdd", **kw):
        if not _is_symarr(a):
            return _orig_lapack["svd"](a, full_matrices=full_matrices, compute_uv=compute_uv, lapack_driver=lapack_driver, **kw)
        m, n = a.shape
        k = min(m, n)
        mu = m if full_matrices else k
        nv = n if full_matrices else k
        u = self._fresh("U", (m, mu))
        vt = self._fresh("Vt", (nv, n))
        s = self._fresh("S", (k,), real=True)
        ex = self.ctx.explorer
        for i in range(k):
            ex.assume(X.le(X.ZERO, s[i].re), "svd:S>=0")
            if i:
                ex.assume(X.le(s[i].re, s[i - 1].re), "svd:S sorted")
        us = np.empty((m, k), dtype=object)
        for i in range(m):
            for j in range(k):
                us[i, j] = u[i, j] * s[j]
        self._assume_eq(us @ vt[:k, :], a, "svd:USVt=A")
        self._assume_eq(self._H(u) @ u, np.eye(mu, dtype=object), "svd:UhU=I")
        self._assume_eq(vt @ self._H(vt), np.eye(nv, dtype=object), "svd:VtVth=I")
        self.calls.append(("svd", a.shape, full_matrices))
        if not compute_uv:
            return s
        return u, s, vt

    def add_orthonormal_basis(self, u):
        """contract for svd_qn.add_orthonormal_basis (random vectors + QR): n extra orthonormal columns orthogonal to u"""
        if not _is_symarr(u):
            return _orig_lapack["add_orthonormal_basis"](u)
        m, n = u.shape
        assert 2 * n < m
        q = self._fresh("Qc", (m, n))
        self._assume_eq(self._H(q) @ q, np.eye(n, dtype=object), "completion: QhQ=I")
        self._assume_eq(self._H(np.asarray(u, dtype=object)) @ q, np.zeros((n, n), dtype=object), "completion: UhQ=0")
        self.calls.append(("add_orthonormal_basis", u.shape))
        return S.symview(np.concatenate([np.asarray(u, dtype=object), q], axis=1))

    def eigh(self, a, *args, **kw):
        if not _is_symarr(a):
            return _orig_lapack["eigh"](a, *args, **kw)
        n = a.shape[0]
        v = self._fresh("V", (n, n))
        w = self._fresh("w", (n,), real=True)
        ex = self.ctx.explorer
        for i in range(1, n):
            ex.assume(X.le(w[i - 1].re, w[i].re), "eigh:w sorted")
        vw = np.empty((n, n), dtype=object)
        for i in range(n):
            for j in range(n):
                vw[i, j] = v[i, j] * w[j]
        self._assume_eq(a @ v, vw, "eigh:AV=VW")
        self._assume_eq(self._H(v) @ v, np.eye(n, dtype=object), "eigh:VhV=I")
        self.calls.append(("eigh", a.shape))
        self.eigvals.append(list(w))
        return w, v


_orig_lapack = {}


class ScipyProxy:
    """stands in for the `scipy` name inside a module under analysis"""

    def __init__(self, real_scipy, contract):
        self._real = real_scipy
        self.linalg = _LinalgProxy(real_scipy.linalg, contract)

    def __getattr__(self, item):
        return getattr(self._real, item)


class _LinalgProxy:
    def __init__(self, real, contract):
        self._real = real
        self._c = contract

    def __getattr__(self, item):
        if item in ("qr", "rq", "svd", "eigh"):
            return getattr(self._c, item)
        return getattr(self._real, item)


def lapack_contract(ctx, modules=("renormalizer.mps.svd_qn",), cplx=False):
    """install contract stubs as the `scipy` name of the given modules; returns (contract, undo)"""
    import scipy.linalg
    if not _orig_lapack:
        _orig_lapack.update(qr=scipy.linalg.qr, rq=scipy.linalg.rq, svd=scipy.linalg.svd, eigh=scipy.linalg.eigh)
    c = LapackContract(ctx, cplx)
    saved = []
    aob = None
    for mn in modules:
        mod = __import__(mn, fromlist=["x"])
        saved.append((mod, mod.__dict__.get("scipy")))
        mod.scipy = ScipyProxy(sys.modules["scipy"], c)
        if mn == "renormalizer.mps.svd_qn":
            if "add_orthonormal_basis" not in _orig_lapack:
                _orig_lapack["add_orthonormal_basis"] = mod.add_orthonormal_basis
            aob = mod
            mod.add_orthonormal_basis = c.add_orthonormal_basis

    def undo():
        for mod, old in saved:
            if old is None:
                mod.__dict__.pop("scipy", None)
            else:
                mod.scipy = old
        if aob is not None:
            aob.add_orthonormal_basis = _orig_lapack["add_orthonormal_basis"]
    return c, undo
