"""Expression DAG for SYMNUM: hash-consed real/int terms (E) and boolean terms (B),
with a sparse-polynomial canonicaliser.  z3 is only involved in solve.py; this module is
pure Python so that terms are cheap to build from inside NumPy object loops, deterministic,
and can be evaluated under a model for replay.

Canonical form: every E can be expanded (memoised) to a polynomial  {monomial: coeff}
where monomial is a sorted tuple of atom ids (repetition = power) and coeff an int/Fraction.
Atoms are variables and opaque nodes (ite / uninterpreted function / sqrt / inv) whose
arguments are themselves canonical.  Two rewrites beyond ring normalisation are applied:
  sqrt(x)^2 -> x      (sound for the real sqrt on x >= 0; x >= 0 is recorded as a definedness assumption)
  a * inv(a) -> 1     (sound for a != 0; recorded likewise)
"""
from fractions import Fraction
import itertools

MONO_CAP = 400000  # monomials per polynomial; beyond that PolyOverflow


class PolyOverflow(Exception):
    pass


_table = {}
_nodes = []  # id -> node
_counter = itertools.count()


def _num(c):
    """normalise a rational to int when integral"""
    if isinstance(c, Fraction) and c.denominator == 1:
        return c.numerator
    return c


class E:
    """real/int valued term. op in: const var add mul neg ite uf sqrt inv"""
    __slots__ = ("op", "args", "id", "sort", "_poly", "_canon", "__weakref__")

    def __repr__(self):
        return show(self)


class B:
    """boolean term. op in: true false le0 lt0 eq0 and or not bvar"""
    __slots__ = ("op", "args", "id", "_neg")

    def __repr__(self):
        return showb(self)


def _mk(cls, op, args, sort=None):
    key = (cls, op, args, sort)
    n = _table.get(key)
    if n is None:
        n = cls.__new__(cls)
        n.op = op
        n.args = args
        n.id = next(_counter)
        if cls is E:
            n.sort = sort
            n._poly = None
            n._canon = None
        else:
            n._neg = None
        _table[key] = n
        _nodes.append(n)
    return n


def reset():
    """forget all nodes (between independent structures, to bound memory)"""
    global _counter
    _table.clear()
    _nodes.clear()
    _counter = itertools.count()
    _sqrt_rad.clear()
    _inv_base.clear()
    _inv_of.clear()
    global ZERO, ONE, TRUE, FALSE
    ZERO = const(0)
    ONE = const(1)
    TRUE = _mk(B, "true", ())
    FALSE = _mk(B, "false", ())


# ------------------------------------------------------------------ constructors (E)

def const(c, sort="R"):
    if isinstance(c, float):
        c = Fraction(c)
    elif not isinstance(c, (int, Fraction)):
        c = Fraction(c)
    c = _num(c)
    if isinstance(c, int) and sort == "I":
        return _mk(E, "const", (c,), "I")
    return _mk(E, "const", (c,), "R")


def var(name, sort="R"):
    return _mk(E, "var", (name,), sort)


def _js(a, b):
    return "I" if (a.sort == "I" and b.sort == "I") else "R"


def add(a, b):
    if a.op == "const":
        if b.op == "const":
            return const(a.args[0] + b.args[0], _js(a, b))
        if a.args[0] == 0:
            return b
    elif b.op == "const" and b.args[0] == 0:
        return a
    return _mk(E, "add", (a, b), _js(a, b))


def neg(a):
    if a.op == "const":
        return const(-a.args[0], a.sort)
    if a.op == "neg":
        return a.args[0]
    return _mk(E, "neg", (a,), a.sort)


def sub(a, b):
    if a is b:
        return const(0, _js(a, b))
    return add(a, neg(b))


def mul(a, b):
    if a.op == "const":
        c = a.args[0]
        if b.op == "const":
            return const(c * b.args[0], _js(a, b))
        if c == 0:
            return const(0, _js(a, b))
        if c == 1:
            return b
        if c == -1:
            return neg(b)
    elif b.op == "const":
        c = b.args[0]
        if c == 0:
            return const(0, _js(a, b))
        if c == 1:
            return a
        if c == -1:
            return neg(a)
    return _mk(E, "mul", (a, b), _js(a, b))


def inv(a):
    if a.op == "const":
        return const(Fraction(1) / a.args[0])
    if a.op == "inv":
        return a.args[0]
    return _mk(E, "inv", (a,), "R")


def div(a, b):
    if b.op == "const":
        return mul(a, const(Fraction(1) / b.args[0]))
    return mul(a, inv(b))


def ite(c, a, b):
    if c.op == "true":
        return a
    if c.op == "false":
        return b
    if a is b:
        return a
    return _mk(E, "ite", (c, a, b), _js(a, b))


def sqrt(a):
    if a.op == "const":
        c = Fraction(a.args[0])
        if c >= 0:
            import math
            n, d = c.numerator, c.denominator
            rn, rd = math.isqrt(n), math.isqrt(d)
            if rn * rn == n and rd * rd == d:
                return const(Fraction(rn, rd))
    return _mk(E, "sqrt", (a,), "R")


def uf(name, *args):
    return _mk(E, "uf", (name,) + tuple(args), "R")


# ------------------------------------------------------------------ polynomial normal form

_sqrt_rad = {}   # atom id of canonical sqrt node -> polynomial of radicand
_inv_base = {}   # atom id of canonical inv(atom) node -> base atom id
_inv_of = {}     # base atom id -> atom id of inv(base)


def _padd(p, q, sign=1):
    if len(p) < len(q) and sign == 1:
        p, q = q, p
    r = dict(p)
    for m, c in q.items():
        v = r.get(m, 0) + (c if sign == 1 else -c)
        if v == 0:
            r.pop(m, None)
        else:
            r[m] = _num(v)
    return r


def _pscale(p, k):
    if k == 0:
        return {}
    if k == 1:
        return p
    return {m: _num(c * k) for m, c in p.items()}


def _mono_fix(m):
    """apply sqrt^2 and a*inv(a) rewrites to a sorted monomial; returns (poly) or None if unchanged"""
    # quick reject
    special = False
    for a in m:
        if a in _sqrt_rad or a in _inv_base:
            special = True
            break
    if not special:
        return None
    cnt = {}
    for a in m:
        cnt[a] = cnt.get(a, 0) + 1
    changed = False
    extra = None
    for a in list(cnt):
        if a in _inv_base:
            b = _inv_base[a]
            k = min(cnt.get(a, 0), cnt.get(b, 0))
            if k:
                cnt[a] -= k
                cnt[b] -= k
                changed = True
    for a in list(cnt):
        if a in _sqrt_rad and cnt[a] >= 2:
            k = cnt[a] // 2
            cnt[a] -= 2 * k
            rad = _sqrt_rad[a]
            for _ in range(k):
                extra = rad if extra is None else _pmul(extra, rad)
            changed = True
    if not changed:
        return None
    rest = tuple(sorted(a for a, k in cnt.items() for _ in range(k)))
    base = {rest: 1}
    if extra is not None:
        return _pmul(base, extra)
    return base


def _pmul(p, q):
    if not p or not q:
        return {}
    if len(p) * len(q) > 4 * MONO_CAP:
        raise PolyOverflow()
    r = {}
    for m1, c1 in p.items():
        for m2, c2 in q.items():
            if not m1:
                m = m2
            elif not m2:
                m = m1
            else:
                m = tuple(sorted(m1 + m2))
            c = c1 * c2
            fx = _mono_fix(m) if (m1 and m2) else None
            if fx is None:
                v = r.get(m, 0) + c
                if v == 0:
                    r.pop(m, None)
                else:
                    r[m] = v
            else:
                for mm, cc in fx.items():
                    v = r.get(mm, 0) + cc * c
                    if v == 0:
                        r.pop(mm, None)
                    else:
                        r[mm] = v
    if len(r) > MONO_CAP:
        raise PolyOverflow()
    for m, c in r.items():
        if isinstance(c, Fraction) and c.denominator == 1:
            r[m] = c.numerator
    return r


def poly(e):
    """memoised expansion (iterative post-order to avoid recursion limits)"""
    if e._poly is not None:
        return e._poly
    stack = [e]
    while stack:
        n = stack[-1]
        if n._poly is not None:
            stack.pop()
            continue
        op = n.op
        if op == "const":
            c = n.args[0]
            n._poly = {(): c} if c != 0 else {}
            stack.pop()
        elif op == "var":
            n._poly = {(n.id,): 1}
            stack.pop()
        elif op in ("add", "mul"):
            a, b = n.args
            if a._poly is None:
                stack.append(a)
                continue
            if b._poly is None:
                stack.append(b)
                continue
            n._poly = _padd(a._poly, b._poly) if op == "add" else _pmul(a._poly, b._poly)
            stack.pop()
        elif op == "neg":
            a = n.args[0]
            if a._poly is None:
                stack.append(a)
                continue
            n._poly = _pscale(a._poly, -1)
            stack.pop()
        else:
            # opaque atoms: canonicalise arguments (recursion depth is small for these)
            n._poly = _atom_poly(n)
            stack.pop()
    return e._poly


def _atom_poly(n):
    op = n.op
    if op == "ite":
        c, a, b = n.args
        cc = canon_b(c)
        if cc.op == "true":
            return poly(a)
        if cc.op == "false":
            return poly(b)
        ca, cb = canon(a), canon(b)
        if ca is cb:
            return poly(ca)
        at = _mk(E, "ite", (cc, ca, cb), n.sort)
        if at._poly is None:
            at._poly = {(at.id,): 1}
            at._canon = at
        return at._poly
    if op == "uf":
        at = _mk(E, "uf", (n.args[0],) + tuple(canon(a) for a in n.args[1:]), "R")
        if at._poly is None:
            at._poly = {(at.id,): 1}
            at._canon = at
        return at._poly
    if op == "sqrt":
        ca = canon(n.args[0])
        if ca.op == "const":
            s = sqrt(ca)
            if s.op == "const":
                return poly(s)
        # sqrt(c^2 * m^2)? keep simple: opaque atom
        at = _mk(E, "sqrt", (ca,), "R")
        if at._poly is None:
            at._poly = {(at.id,): 1}
            at._canon = at
            _sqrt_rad[at.id] = poly(ca)
        return at._poly
    if op == "inv":
        p = poly(n.args[0])
        if not p:
            # 1/0: keep opaque
            at = _mk(E, "inv", (canon(n.args[0]),), "R")
            if at._poly is None:
                at._poly = {(at.id,): 1}
                at._canon = at
            return at._poly
        if len(p) == 1:
            (m, c), = p.items()
            res = {(): Fraction(1) / c}
            res[()] = _num(res[()])
            for a in m:
                ia = _inv_atom(a)
                res = _pmul(res, {(ia,): 1})
            return res
        ca = canon(n.args[0])
        at = _mk(E, "inv", (ca,), "R")
        if at._poly is None:
            at._poly = {(at.id,): 1}
            at._canon = at
        return at._poly
    raise AssertionError(op)


def _inv_atom(a):
    """atom id for 1/atom(a)"""
    if a in _inv_base:        # 1/(1/b) = b
        return _inv_base[a]
    ia = _inv_of.get(a)
    if ia is None:
        base = _nodes[a]
        at = _mk(E, "inv", (base,), "R")
        at._poly = {(at.id,): 1}
        at._canon = at
        _inv_base[at.id] = a
        _inv_of[a] = at.id
        ia = at.id
    return ia


def from_poly(p, sort="R"):
    """canonical E for a polynomial: terms in sorted monomial order"""
    if not p:
        return const(0, sort)
    acc = None
    for m in sorted(p):
        c = p[m]
        t = None
        for a in m:
            t = _nodes[a] if t is None else _mk(E, "mul", (t, _nodes[a]), "I" if (t.sort == "I" and _nodes[a].sort == "I") else "R")
        if t is None:
            t = const(c, sort)
        elif c != 1:
            t = _mk(E, "mul", (const(c, "I" if isinstance(c, int) and t.sort == "I" else "R"), t),
                    "I" if (isinstance(c, int) and t.sort == "I") else "R")
        acc = t if acc is None else _mk(E, "add", (acc, t), "I" if (acc.sort == "I" and t.sort == "I") else "R")
    return acc


def canon(e):
    if e._canon is None:
        try:
            p = poly(e)
        except PolyOverflow:
            e._canon = e
            return e
        c = from_poly(p, e.sort)
        if c._poly is None:
            c._poly = p
        c._canon = c
        e._canon = c
    return e._canon


def is_const(e):
    c = canon(e)
    return c.op == "const"


def const_value(e):
    c = canon(e)
    return c.args[0] if c.op == "const" else None


# ------------------------------------------------------------------ booleans

def _rel(op, e):
    """canonical relation  e (op) 0 with op in le0 lt0 eq0"""
    try:
        p = poly(e)
    except PolyOverflow:
        return _mk(B, op, (e,))
    if not p:
        return TRUE if op in ("le0", "eq0") else FALSE
    if len(p) == 1 and () in p:
        c = p[()]
        if op == "le0":
            return TRUE if c <= 0 else FALSE
        if op == "lt0":
            return TRUE if c < 0 else FALSE
        return FALSE
    # scale so that the leading (smallest monomial in sort order that is non-constant) coefficient is +-1
    lead = min(m for m in p if m) if any(m for m in p) else ()
    k = abs(p[lead]) if op != "eq0" else p[lead]
    if e.sort == "I":
        k = 1 if (op != "eq0" or p[lead] > 0) else -1
    if k != 1:
        p = _pscale(p, Fraction(1) / k)
    e2 = from_poly(p, e.sort)
    if e2._poly is None:
        e2._poly = p
        e2._canon = e2
    return _mk(B, op, (e2,))


def le(a, b):
    return _rel("le0", sub(a, b))


def lt(a, b):
    return _rel("lt0", sub(a, b))


def eq(a, b):
    if a is b:
        return TRUE
    return _rel("eq0", sub(a, b))


def bvar(name):
    return _mk(B, "bvar", (name,))


def bnot(b):
    if b._neg is not None:
        return b._neg
    op = b.op
    if op == "true":
        r = FALSE
    elif op == "false":
        r = TRUE
    elif op == "not":
        r = b.args[0]
    elif op == "le0":     # not (e <= 0)  ==  -e < 0
        r = _rel("lt0", neg(b.args[0]))
    elif op == "lt0":
        r = _rel("le0", neg(b.args[0]))
    elif op == "and":
        r = bor(*[bnot(x) for x in b.args])
    elif op == "or":
        r = band(*[bnot(x) for x in b.args])
    else:
        r = _mk(B, "not", (b,))
    b._neg = r
    if r._neg is None:
        r._neg = b
    return r


def band(*bs):
    out = []
    seen = set()
    for b in bs:
        if b.op == "true":
            continue
        if b.op == "false":
            return FALSE
        if b.op == "and":
            for x in b.args:
                if x.id not in seen:
                    seen.add(x.id)
                    out.append(x)
        elif b.id not in seen:
            seen.add(b.id)
            out.append(b)
    if not out:
        return TRUE
    if len(out) == 1:
        return out[0]
    out.sort(key=lambda x: x.id)
    return _mk(B, "and", tuple(out))


def bor(*bs):
    out = []
    seen = set()
    for b in bs:
        if b.op == "false":
            continue
        if b.op == "true":
            return TRUE
        if b.op == "or":
            for x in b.args:
                if x.id not in seen:
                    seen.add(x.id)
                    out.append(x)
        elif b.id not in seen:
            seen.add(b.id)
            out.append(b)
    if not out:
        return FALSE
    if len(out) == 1:
        return out[0]
    out.sort(key=lambda x: x.id)
    return _mk(B, "or", tuple(out))


def implies(a, b):
    return bor(bnot(a), b)


def canon_b(b):
    """booleans are canonical by construction (relations are normalised on creation)"""
    return b


# ------------------------------------------------------------------ reduction modulo hypothesis equalities
def _mkey(m):
    """admissible lexicographic monomial order with older atoms (smaller id) ranked higher"""
    return tuple(-a for a in m)


def _divides(lm, m):
    """multiset inclusion of sorted tuples; returns the quotient monomial or None"""
    if len(lm) > len(m):
        return None
    q = []
    i = 0
    for a in m:
        if i < len(lm) and a == lm[i]:
            i += 1
        else:
            q.append(a)
    if i < len(lm):
        return None
    return tuple(q)


def clear_inverses(p, limit=6):
    """multiply an (= 0) polynomial by the bases of the inverse atoms it mentions (bases are assumed non-zero
    wherever an inverse was formed), so that a*inv(a) cancels and hypotheses/goals become inverse-free"""
    for _ in range(limit):
        ia = None
        for m in p:
            for a in m:
                if a in _inv_base:
                    ia = a
                    break
            if ia is not None:
                break
        if ia is None:
            return p
        p = _pmul(p, {(_inv_base[ia],): 1})
    return p


class Rules:
    """rewrite system  LM(h) -> -(h - lc*LM)/lc  from equalities h = 0"""

    def __init__(self, hyps):
        self.rules = []     # (lm, tail poly scaled)
        self.by_first = {}
        for h in hyps:
            if h.op != "eq0":
                continue
            try:
                p = clear_inverses(poly(h.args[0]))
            except PolyOverflow:
                continue
            if not p:
                continue
            if self.rules:
                # triangularise: a later equality is first rewritten with the earlier rules, so that two hypotheses with the same
                # leading monomial (e.g. two factorisations of the same tensor) both contribute a rule
                try:
                    q = self.reduce(p, max_steps=20000)
                    if q:
                        p = q
                    else:
                        continue
                except PolyOverflow:
                    pass
            lm = max(p, key=_mkey)
            if not lm:
                continue
            lc = p[lm]
            tail = {m: _num(Fraction(-c) / lc) for m, c in p.items() if m != lm}
            r = (lm, tail)
            self.rules.append(r)
            self.by_first.setdefault(lm[0], []).append(r)

    def reduce(self, p, max_steps=200000):
        if not self.rules:
            return p
        work = dict(p)
        out = {}
        steps = 0
        while work:
            m = max(work, key=_mkey)
            c = work.pop(m)
            hit = None
            for a in set(m):
                for lm, tail in self.by_first.get(a, ()):
                    q = _divides(lm, m)
                    if q is not None:
                        hit = (q, tail)
                        break
                if hit:
                    break
            if hit is None:
                v = out.get(m, 0) + c
                if v == 0:
                    out.pop(m, None)
                else:
                    out[m] = v
                continue
            steps += 1
            if steps > max_steps:
                raise PolyOverflow()
            q, tail = hit
            for tm, tc in tail.items():
                mm = tuple(sorted(q + tm)) if q and tm else (q or tm)
                fx = _mono_fix(mm) if (q and tm) else None
                if fx is None:
                    v = work.get(mm, 0) + c * tc
                    if v == 0:
                        work.pop(mm, None)
                    else:
                        work[mm] = v
                else:
                    for m2, c2 in fx.items():
                        v = work.get(m2, 0) + c * tc * c2
                        if v == 0:
                            work.pop(m2, None)
                        else:
                            work[m2] = v
        return out

    def reduce_b(self, b):
        """rewrite the arithmetic atoms of a boolean term"""
        op = b.op
        if op in ("le0", "lt0", "eq0"):
            try:
                p = poly(b.args[0])
                if op == "eq0":
                    p = clear_inverses(p)
                r = self.reduce(p)
            except PolyOverflow:
                return b
            if r is p or r == p:
                return b
            return _rel(op, from_poly(r, b.args[0].sort))
        if op == "and":
            return band(*[self.reduce_b(x) for x in b.args])
        if op == "or":
            return bor(*[self.reduce_b(x) for x in b.args])
        if op == "not":
            return bnot(self.reduce_b(b.args[0]))
        return b


# ------------------------------------------------------------------ evaluation / printing

def evaluate(e, env, memo=None):
    """evaluate E under env {var name: number}; Fractions if env holds Fractions, floats otherwise"""
    if memo is None:
        memo = {}
    stack = [e]
    while stack:
        n = stack[-1]
        if n.id in memo:
            stack.pop()
            continue
        op = n.op
        if op == "const":
            memo[n.id] = n.args[0]
        elif op == "var":
            memo[n.id] = env[n.args[0]]
        elif op in ("add", "mul"):
            a, b = n.args
            if a.id not in memo:
                stack.append(a)
                continue
            if b.id not in memo:
                stack.append(b)
                continue
            memo[n.id] = memo[a.id] + memo[b.id] if op == "add" else memo[a.id] * memo[b.id]
        elif op == "neg":
            a = n.args[0]
            if a.id not in memo:
                stack.append(a)
                continue
            memo[n.id] = -memo[a.id]
        elif op == "inv":
            a = n.args[0]
            if a.id not in memo:
                stack.append(a)
                continue
            v = memo[a.id]
            memo[n.id] = (Fraction(1) / v) if isinstance(v, (int, Fraction)) else 1.0 / v
        elif op == "sqrt":
            a = n.args[0]
            if a.id not in memo:
                stack.append(a)
                continue
            import math
            memo[n.id] = math.sqrt(float(memo[a.id]))
        elif op == "ite":
            c, a, b = n.args
            cv = evaluate_b(c, env, memo)
            br = a if cv else b
            if br.id not in memo:
                stack.append(br)
                continue
            memo[n.id] = memo[br.id]
        elif op == "uf":
            import math
            vals = []
            missing = False
            for a in n.args[1:]:
                if a.id not in memo:
                    stack.append(a)
                    missing = True
                    break
                vals.append(float(memo[a.id]))
            if missing:
                continue
            memo[n.id] = getattr(math, n.args[0])(*vals)
        else:
            raise AssertionError(op)
        if stack and stack[-1] is n:
            stack.pop()
    return memo[e.id]


def evaluate_b(b, env, memo=None, tol=0):
    if memo is None:
        memo = {}
    op = b.op
    if op == "true":
        return True
    if op == "false":
        return False
    if op == "bvar":
        return bool(env[b.args[0]])
    if op == "not":
        return not evaluate_b(b.args[0], env, memo, tol)
    if op == "and":
        return all(evaluate_b(x, env, memo, tol) for x in b.args)
    if op == "or":
        return any(evaluate_b(x, env, memo, tol) for x in b.args)
    v = evaluate(b.args[0], env, memo)
    if op == "le0":
        return v <= tol
    if op == "lt0":
        return v < -tol
    if op == "eq0":
        return abs(v) <= tol
    raise AssertionError(op)


def show(e, depth=6):
    op = e.op
    if op == "const":
        return str(e.args[0])
    if op == "var":
        return e.args[0]
    if depth == 0:
        return "…"
    if op == "add":
        return "(%s + %s)" % (show(e.args[0], depth - 1), show(e.args[1], depth - 1))
    if op == "mul":
        return "%s*%s" % (show(e.args[0], depth - 1), show(e.args[1], depth - 1))
    if op == "neg":
        return "-%s" % show(e.args[0], depth - 1)
    if op == "inv":
        return "1/(%s)" % show(e.args[0], depth - 1)
    if op == "sqrt":
        return "sqrt(%s)" % show(e.args[0], depth - 1)
    if op == "ite":
        return "ite(%s, %s, %s)" % (showb(e.args[0], depth - 1), show(e.args[1], depth - 1), show(e.args[2], depth - 1))
    if op == "uf":
        return "%s(%s)" % (e.args[0], ", ".join(show(a, depth - 1) for a in e.args[1:]))
    return op


def showb(b, depth=6):
    op = b.op
    if op in ("true", "false"):
        return op
    if op == "bvar":
        return b.args[0]
    if depth == 0:
        return "…"
    if op == "not":
        return "!(%s)" % showb(b.args[0], depth - 1)
    if op in ("and", "or"):
        return "(" + (" & " if op == "and" else " | ").join(showb(x, depth - 1) for x in b.args) + ")"
    return "%s %s 0" % (show(b.args[0], depth - 1), {"le0": "<=", "lt0": "<", "eq0": "=="}[op])


def variables(node, acc=None, seen=None):
    """set of var nodes below an E or B"""
    if acc is None:
        acc = {}
        seen = set()
    stack = [node]
    while stack:
        n = stack.pop()
        if n.id in seen:
            continue
        seen.add(n.id)
        if isinstance(n, E) and n.op == "var":
            acc[n.args[0]] = n
        elif isinstance(n, B) and n.op == "bvar":
            acc[n.args[0]] = n
        else:
            for a in n.args:
                if isinstance(a, (E, B)):
                    stack.append(a)
    return acc


reset()
