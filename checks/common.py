"""Shared runner: enumerate harness instances, explore each symbolically in a worker pool,
replay counterexamples on the float build, match known findings, write evidence."""
import argparse
import hashlib
import importlib
import inspect
import json
import multiprocessing as mp
import os
import subprocess
import sys
import time
import traceback
from fractions import Fraction

VERIF = os.path.dirname(os.path.dirname(os.path.abspath(__file__)))
REPO = os.environ.get("VERIF_REPO", "/repo")
PY = os.path.join(VERIF, ".venv", "bin", "python")
EXIT_OK, EXIT_VIOLATION, EXIT_INCONCLUSIVE = 0, 1, 2


def src_hash(objs):
    """sha1 over the current source text of the real functions a check encodes"""
    h = hashlib.sha1()
    names = []
    for o in objs:
        try:
            src = inspect.getsource(o)
        except Exception:
            src = repr(o)
        h.update(src.encode())
        names.append(getattr(o, "__module__", "") + "." + getattr(o, "__qualname__", getattr(o, "__name__", str(o))))
    return names, h.hexdigest()


def load_known():
    """known_findings.txt lines:
         finding: property=<id> key=<key> | <text>      (key may contain spaces; ends at ' | ')
         fixed: property=<id> <commit> <text>           (documentation only, suppresses nothing)"""
    out = []
    p = os.path.join(VERIF, "known_findings.txt")
    if os.path.exists(p):
        for line in open(p):
            line = line.strip()
            if line.startswith("finding:") and " key=" in line and " | " in line:
                head, text = line.split(" | ", 1)
                prop = head.split("property=", 1)[1].split()[0]
                key = head.split(" key=", 1)[1].strip()
                out.append(dict(property=prop, key=key, text=text))
    return out


def match_known(prop, key, known):
    for k in known:
        if k["property"] == prop and key.startswith(k["key"]):
            return k
    return None


# ------------------------------------------------------------------ worker side
def _concrete_instance(modname, inst, t0):
    """instances flagged `concrete`: fixed inputs run on the ordinary float64 build in a fresh process (real LAPACK, no stubs).
    They witness recorded findings the solver-based encoding cannot reach and are reported separately in the evidence."""
    env = dict(os.environ)
    p = subprocess.run([PY, os.path.join(VERIF, "checks", "common.py"), "--concrete", json.dumps(dict(module=modname, inst=inst))],
                       capture_output=True, text=True, timeout=int(inst.get("limit_s", 600)), env=env)
    line = [l for l in p.stdout.splitlines() if l.startswith("{")]
    base = dict(label=inst.get("label"), inst=inst, wall_s=time.time() - t0, paths=1, by_normal_form=0, stats={}, unknown=[], violations=[], exceptions=[],
                violations_full=[], exceptions_full=[], samples=[], inconclusive=None, concrete=True)
    if not line:
        base.update(ok=False, obligations=0, proved=0, witnessed={}, inconclusive="concrete run produced no result: %s" % (p.stdout[-500:] + p.stderr[-800:]))
        return base
    out = json.loads(line[-1])
    res = out["results"]
    base.update(obligations=len(res), proved=sum(1 for r in res if r[1]), witnessed={r[0]: True for r in res},
                violations_full=[dict(name=r[0], env={}, detail=None, goal=None) for r in res if not r[1]],
                exceptions_full=([dict(exc=out["exception"], env={}, tb=out["exception"][2] if len(out["exception"]) > 2 else None)] if out.get("exception") else []))
    base["violations"] = [dict(name=v["name"]) for v in base["violations_full"]]
    base["exceptions"] = [e["exc"][:2] for e in base["exceptions_full"]]
    base["ok"] = not base["violations_full"] and not base["exceptions_full"]
    return base


def concrete_main(arg):
    rec = json.loads(arg)
    sys.path.insert(0, VERIF)
    sys.path.insert(0, REPO)
    import logging
    logging.disable(logging.CRITICAL)
    import types
    if "print_tree" not in sys.modules:
        m = types.ModuleType("print_tree")
        m.print_tree = type("print_tree", (), {"__init__": lambda self, *a, **k: setattr(self, "rows", [])})
        sys.modules["print_tree"] = m
    from symnum import engine
    mod = importlib.import_module(rec["module"])
    harness = mod.make_harness(rec["inst"])
    results, inputs, exc = engine.run_concrete(harness, {})
    if exc is not None and exc[0] == "PreconditionFailed":
        exc = None
    print(json.dumps(dict(results=[[n, bool(ok)] for (n, ok, info) in (results or [])], exception=list(exc) if exc else None)))
    return 0


def _worker(job):
    modname, inst, opts = job
    t0 = time.time()
    if inst.get("concrete"):
        try:
            return _concrete_instance(modname, inst, t0)
        except BaseException as ex:  # noqa
            return dict(label=inst.get("label"), inst=inst, ok=False, crashed=traceback.format_exc()[-3000:], wall_s=time.time() - t0,
                        paths=0, obligations=0, proved=0, by_normal_form=0, stats={}, witnessed={}, unknown=[], violations=[], exceptions=[],
                        violations_full=[], exceptions_full=[], samples=[], inconclusive="concrete run crashed: %r" % (ex,))
    if os.environ.get("VERIF_NO_ISOLATE") != "1" and not (opts or {}).get("_isolated"):
        return _isolated(job, t0)
    import signal

    def _alarm(signum, frame):
        raise TimeoutError("instance wall-clock limit")
    limit = int(inst.get("limit_s", os.environ.get("VERIF_INSTANCE_LIMIT", "900")))
    signal.signal(signal.SIGALRM, _alarm)
    signal.alarm(limit)
    try:
        import resource
        cap = int(float(inst.get("mem_gb", os.environ.get("VERIF_MEM_GB", "3.5"))) * (1 << 30))
        try:
            resource.setrlimit(resource.RLIMIT_AS, (cap, resource.getrlimit(resource.RLIMIT_AS)[1]))     # a term blow-up must end as "inconclusive", never as an out-of-memory machine
        except (ValueError, OSError):
            pass
        sys.setrecursionlimit(20000)
        from symnum import stubs, engine, expr as X
        stubs.install()
        X.reset()
        stubs.reset_fresh()
        mod = importlib.import_module(modname)
        harness = mod.make_harness(inst)
        kw = dict(mod.RUN_OPTS) if hasattr(mod, "RUN_OPTS") else {}
        kw.update(inst.get("run_opts", {}))
        kw.update({k_: v_ for k_, v_ in (opts or {}).items() if k_ != "_isolated"})
        rep = engine.run_symbolic(harness, label=inst["label"], **kw)
        d = rep.to_dict()
        d["samples"] = rep.samples
        # candidates handed to the replay: up to two per distinct obligation (not simply the first three - the first ones found may all belong to one obligation whose
        # candidates do not replay, hiding a later obligation whose candidates do), at most ten per instance
        picked, per_name = [], {}
        for v in rep.violations:
            if per_name.get(v["name"], 0) < 2 and len(picked) < 10:
                per_name[v["name"]] = per_name.get(v["name"], 0) + 1
                picked.append(v)
        d["violations_full"] = [dict(name=v["name"], env=_ser_env(v["env"]), detail=v.get("detail"), goal=v.get("goal")) for v in picked]
        d["exceptions_full"] = [dict(exc=list(e["exc"]), env=_ser_env(e["env"]), tb=e.get("tb")) for e in rep.exceptions[:3]]
        d["ok"] = rep.ok()
        d["inst"] = inst
        signal.alarm(0)
        return d
    except BaseException as ex:  # noqa
        signal.alarm(0)
        return dict(label=inst.get("label"), inst=inst, ok=False, crashed=traceback.format_exc()[-3000:], wall_s=time.time() - t0,
                    paths=0, obligations=0, proved=0, by_normal_form=0, stats={}, witnessed={}, unknown=[], violations=[], exceptions=[],
                    violations_full=[], exceptions_full=[], samples=[], inconclusive="worker crashed: %r" % (ex,))


def _isolated(job, t0):
    """run one symbolic instance in a forked child of the pool worker: a native crash (z3 segfault, hard out-of-memory kill) or a native hang then costs this
    instance (reported as inconclusive) instead of the whole pool - multiprocessing.Pool never notices a worker that died and would wait for its result forever"""
    import pickle
    import select
    import signal
    modname, inst, opts = job
    limit = int(inst.get("limit_s", os.environ.get("VERIF_INSTANCE_LIMIT", "900")))
    o2 = dict(opts or {})
    o2["_isolated"] = True
    r, w = os.pipe()
    pid = os.fork()
    if pid == 0:
        code = 0
        try:
            os.close(r)
            res = _worker((modname, inst, o2))
            with os.fdopen(w, "wb") as f:
                f.write(pickle.dumps(res))
        except BaseException:  # noqa
            code = 1
        finally:
            os._exit(code)
    os.close(w)
    chunks = []
    deadline = time.time() + limit + 90
    hung = False
    with os.fdopen(r, "rb") as f:
        while True:
            left = deadline - time.time()
            if left <= 0:
                hung = True
                break
            ready, _, _ = select.select([f], [], [], min(left, 5.0))
            if ready:
                b = os.read(f.fileno(), 1 << 20)
                if not b:
                    break
                chunks.append(b)
    if hung:
        try:
            os.kill(pid, signal.SIGKILL)
        except OSError:
            pass
    try:
        _, status = os.waitpid(pid, 0)
    except OSError:
        status = -1
    data = b"".join(chunks)
    if data and not hung:
        try:
            return pickle.loads(data)
        except Exception:  # noqa
            pass
    why = "instance exceeded its wall-clock limit inside native code and was killed" if hung else \
        "instance process died (wait status %s: native crash in the solver or killed by the memory limit)" % status
    return dict(label=inst.get("label"), inst=inst, ok=False, crashed=why, wall_s=time.time() - t0,
                paths=0, obligations=0, proved=0, by_normal_form=0, stats={}, witnessed={}, unknown=[], violations=[], exceptions=[],
                violations_full=[], exceptions_full=[], samples=[], inconclusive=why)


def _ser_env(env):
    out = {}
    for k, v in env.items():
        if isinstance(v, Fraction):
            out[k] = [v.numerator, v.denominator] if abs(v.numerator) < 10 ** 300 and v.denominator < 10 ** 300 else float(v)
        else:
            out[k] = v
    return out


def deser_env(env):
    out = {}
    for k, v in env.items():
        if isinstance(v, list):
            out[k] = v[0] / v[1]
        else:
            out[k] = v
    return out


# ------------------------------------------------------------------ replay (float build, fresh process)
def replay_file(path):
    """run by `check --replay`: re-execute the recorded instance with the recorded inputs on the
    ordinary float64 backend, real LAPACK, no stubs.  prints REPRODUCED / NOT-REPRODUCED"""
    rec = json.load(open(path))
    sys.path.insert(0, VERIF)
    sys.path.insert(0, REPO)
    import logging
    logging.disable(logging.CRITICAL)
    import types
    if "print_tree" not in sys.modules:
        m = types.ModuleType("print_tree")
        m.print_tree = type("print_tree", (), {"__init__": lambda self, *a, **k: setattr(self, "rows", [])})
        sys.modules["print_tree"] = m
    from symnum import engine
    mod = importlib.import_module(rec["module"])
    if hasattr(mod, "replay_record"):
        ok = mod.replay_record(rec)
        print("REPRODUCED" if ok else "NOT-REPRODUCED")
        return 0 if ok else 3
    harness = mod.make_harness(rec["inst"])
    results, inputs, exc = engine.run_concrete(harness, deser_env(rec["env"]), rtol=rec.get("rtol", 1e-7))
    failed = [n for (n, ok, info) in (results or []) if not ok]
    out = dict(failed=failed, exception=exc[:2] if exc else None)
    want = rec.get("obligation")
    reproduced = False
    if rec.get("kind") == "exception":
        # the symbolic run's exception type can be a model artefact (ZeroDivisionError vs NumPy's FloatingPointError):
        # any exception of the float build on the same inputs confirms the failure
        reproduced = exc is not None and exc[0] != "PreconditionFailed"
    else:
        reproduced = (want in failed) or (want is None and bool(failed))
        if not reproduced and exc is not None and exc[0] != "PreconditionFailed":
            # the float build raises where the encoding saw a wrong value: still a real failure of the same call
            reproduced = True
    out["reproduced"] = reproduced
    print(json.dumps(out))
    print("REPRODUCED" if reproduced else "NOT-REPRODUCED")
    return 0 if reproduced else 3


def run_replay_subprocess(path, timeout=600):
    env = dict(os.environ)
    env.pop("VERIF_SYMBOLIC", None)
    p = subprocess.run([PY, os.path.join(VERIF, "checks", "common.py"), "--replay", path], capture_output=True, text=True, timeout=timeout, env=env)
    return p.returncode == 0, (p.stdout[-2000:] + p.stderr[-2000:])


# ------------------------------------------------------------------ main driver
def run_check(prop, modname, tier, seed, explanation, assumptions, trusted_base, functions, workers=None, extra_cov=None,
              post=None):
    """enumerate mod.instances(tier, seed), explore, replay, write evidence, return exit code"""
    t0 = time.time()
    sys.path.insert(0, VERIF)
    sys.path.insert(0, REPO)
    mod = importlib.import_module(modname)
    insts = mod.instances(tier, seed)
    jobs = [(modname, inst, None) for inst in insts]
    workers = workers or min(16, max(1, len(jobs)))
    results = []
    ctx = mp.get_context("fork")
    with ctx.Pool(workers, maxtasksperchild=20) as pool:
        for r in pool.imap_unordered(_worker, jobs, chunksize=1):
            results.append(r)
    results.sort(key=lambda r: r.get("label") or "")
    return finish(prop, modname, tier, seed, results, explanation, assumptions, trusted_base, functions, t0, extra_cov, post)


def finish(prop, modname, tier, seed, results, explanation, assumptions, trusted_base, functions, t0, extra_cov=None, post=None):
    known = load_known()
    os.makedirs(os.path.join(VERIF, "replays"), exist_ok=True)
    os.makedirs(os.path.join(VERIF, "evidence"), exist_ok=True)
    violations, known_hits, inconclusive, not_reproduced = [], [], [], []
    tot = dict(paths=0, obligations=0, proved=0, by_normal_form=0, queries=0, unsat=0, sat=0, unknown=0, solver_s=0.0)
    samples = []
    nviol = 0
    replayed = {}    # key -> number of candidates replayed
    witnessed_by_key = {}   # vacuity guard per (harness key, obligation): some instance of that harness must reach the obligation on a path the solver proves satisfiable
    unwitnessed = []
    for r in results:
        for k in ("paths", "obligations", "proved", "by_normal_form"):
            tot[k] += r.get(k, 0) or 0
        st = r.get("stats") or {}
        for k in ("queries", "unsat", "sat", "unknown"):
            tot[k] += st.get(k, 0)
        tot["solver_s"] += st.get("solver_s", 0.0)
        if r.get("samples") and len(samples) < 4:
            s = dict(r["samples"][0])
            s["instance"] = r["label"]
            samples.append(s)
        if r.get("crashed") or r.get("inconclusive"):
            inconclusive.append((r["label"], (r.get("crashed") or r.get("inconclusive"))[-1500:]))
        for u in r.get("unknown", []):
            inconclusive.append((r["label"], "unknown: %s" % (u,)))
        for n, w in (r.get("witnessed") or {}).items():
            wk = (r["inst"].get("key", r["label"]), n)
            witnessed_by_key[wk] = witnessed_by_key.get(wk, False) or bool(w)
            if not w:
                unwitnessed.append((r["label"], wk))
        cands = []
        for v in r.get("violations_full", []):
            cands.append(dict(kind="obligation", obligation=v["name"], env=v["env"], detail=v.get("detail"), goal=v.get("goal")))
        for e in r.get("exceptions_full", []):
            cands.append(dict(kind="exception", obligation="exception:" + e["exc"][0], exception=e["exc"], env=e["env"], tb=e.get("tb")))
        seen_keys = set()
        for c in cands:
            key = "%s/%s" % (r["inst"].get("key", r["label"]), c["obligation"])
            if key in seen_keys:
                continue
            seen_keys.add(key)
            nviol += 1
            replayed[key] = replayed.get(key, 0) + 1
            if replayed[key] > 2:
                continue   # same harness key + obligation already confirmed/replayed twice
            path = os.path.join(VERIF, "replays", "%s-%s.json" % (prop, hashlib.sha1((r["label"] + c["obligation"]).encode()).hexdigest()[:10]))
            rec = dict(property=prop, module=modname, inst=r["inst"], key=key, **c)
            json.dump(rec, open(path, "w"), indent=1, default=str)
            ok, out = run_replay_subprocess(path)
            if not ok:
                not_reproduced.append((r["label"], c["obligation"], out[-800:]))
                continue
            kf = match_known(prop, key, known)
            if kf:
                known_hits.append((kf, key, path))
            else:
                violations.append((key, path, c))
    for lab, wk in unwitnessed:
        if not witnessed_by_key.get(wk):
            inconclusive.append((lab, "no satisfiable path reaches obligation %s in any instance of harness %s (vacuity guard)" % (wk[1], wk[0])))
    if post:
        post(results, violations, inconclusive)
    names, shash = src_hash(functions)
    wall = time.time() - t0
    distinct = sum(1 for r in results if (r.get("obligations") or 0) > 0)
    cov = dict(
        explanation=explanation,
        evaluations=max(1, tot["paths"]),
        distinct_nontrivial=max(distinct, 0),
        rule="one evaluation = one explored path of one enumerated structure; an instance is non-trivial when at least one "
             "obligation was generated on a feasible path; instances are enumerated deterministically (exhaustive within the stated bounds)",
        samples=samples or [dict(note="no non-trivial obligation sample recorded")],
        obligations=tot["obligations"], discharged=tot["proved"],
        closed_by_normal_form=tot["by_normal_form"],
        checker_cmd="./check %s --tier %s" % (prop, tier),
        trusted_base=trusted_base,
        exhaustive=True,
        instances=len(results), paths=tot["paths"],
        solver=dict(queries=tot["queries"], unsat=tot["unsat"], sat=tot["sat"], unknown=tot["unknown"], solver_wall_s=round(tot["solver_s"], 2)),
        functions_encoded=names, source_sha1=shash,
        known_findings_hit=[k[1] for k in known_hits],
        inconclusive=[list(x) for x in inconclusive[:10]],
        not_reproduced=[list(x) for x in not_reproduced[:10]],
        instance_labels=[r["label"] for r in results][:60],
        concrete_witness_instances=[r["label"] for r in results if r.get("concrete")],
        reachability=dict(rule="vacuity guard per (harness key, obligation name): at least one instance of the harness reaches the obligation on a path whose condition z3 proves satisfiable",
                          witnessed=sum(1 for v in witnessed_by_key.values() if v), total=len(witnessed_by_key),
                          instances_without_own_witness=len(unwitnessed)),
    )
    if extra_cov:
        cov.update(extra_cov)
    ev = dict(property_id=prop, tier=tier, seed=int(seed), level="other", coverage=cov, assumptions=assumptions,
              wall_s=round(wall, 2), violations=len(violations))
    json.dump(ev, open(os.path.join(VERIF, "evidence", "%s.json" % prop), "w"), indent=1, default=str)
    shown = set()
    for kf, key, path in known_hits:
        if key in shown:
            continue
        shown.add(key)
        print("KNOWN-FINDING: property=%s %s [key=%s, %d instance(s)] replay=%s" % (prop, kf["text"], key, replayed.get(key, 1), path))
    for key, path, c in violations:
        print("VIOLATION property=%s replay=%s" % (prop, path))
        print("  key=%s obligation=%s" % (key, c["obligation"]))
    print("%s %s: instances=%d paths=%d obligations=%d discharged=%d (normal-form %d) queries=%d unknown=%d wall=%.1fs" % (
        prop, tier, len(results), tot["paths"], tot["obligations"], tot["proved"], tot["by_normal_form"], tot["queries"], tot["unknown"], wall))
    if violations:
        return EXIT_VIOLATION
    if inconclusive or not_reproduced:
        for lab, why in inconclusive[:8]:
            print("INCONCLUSIVE %s: %s" % (lab, why[-600:]))
        for lab, ob, out in not_reproduced[:8]:
            print("NOT-REPRODUCED (encoding or stub suspect) %s %s: %s" % (lab, ob, out[-400:]))
        return EXIT_INCONCLUSIVE
    return EXIT_OK


if __name__ == "__main__":
    ap = argparse.ArgumentParser()
    ap.add_argument("--replay")
    ap.add_argument("--concrete")
    a = ap.parse_args()
    if a.replay:
        sys.exit(replay_file(a.replay))
    if a.concrete:
        sys.exit(concrete_main(a.concrete))
