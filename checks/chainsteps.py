"""One-step harnesses for the chain sweeps (shared by C04, C05, C06): _push_cano, canonicalise,
compress (lossless and truncating), ensure_left/right_canonical - on an arbitrary symbolic pre-state
that satisfies the label invariant, with LAPACK by contract."""
import itertools
import numpy as np

from checks import lib


def structures(tier, classes=("mps", "mpo", "mpdm"), seed=0, lab_cap=None):
    """(cls, kinds, bonds, qntot, qn) tuples.  Labels are enumerated per centre position by the callers."""
    if tier == "quick":
        base = [(("e", "e"), (1, 2, 1)), (("e", "e", "e"), (1, 2, 2, 1)), (("e", "w", "e"), (1, 2, 2, 1))]
    else:
        base = [(("e", "e"), (1, 2, 1)), (("e", "e"), (1, 3, 1)), (("e", "e", "e"), (1, 2, 2, 1)), (("e", "e", "e"), (1, 2, 3, 1)),
                (("e", "v", "e"), (1, 2, 2, 1)), (("e", "e", "e", "e"), (1, 2, 2, 2, 1)), (("S", "S", "S"), (1, 2, 2, 1))]
    out = []
    for kinds, bonds in base:
        for cls in classes:
            if cls != "mps" and (len(kinds) > 3 or "v" in kinds):
                continue
            out.append((cls, kinds, bonds))
    return out


def label_sets(cls, kinds, bonds, qntot, qnidx, cap, seed):
    vals = (0, 1, 2) if "S" not in kinds else (-1, 0, 1)
    if cls == "mpo":
        return lib.label_structures(kinds, bonds, qntot, qnidx, values=(-1, 0, 1), cap=cap, cls="mpo", stride_seed=seed)
    return lib.label_structures(kinds, bonds, qntot, qnidx, values=vals, cap=cap, cls="mps", stride_seed=seed)


def canonicalisable(cls, kinds, bonds, qn, qntot, qnidx):
    """structural test: can every off-centre site be an isometry towards the centre with these labels?
    (the mask of allowed entries must have full structural rank on the bond facing the centre)"""
    from scipy.sparse import csr_matrix
    from scipy.sparse.csgraph import structural_rank
    model = lib.make_model(kinds)
    from renormalizer.mps.svd_qn import add_outer
    n = len(kinds)
    for i in range(n):
        if i == qnidx:
            continue
        sq = np.asarray(model.basis[i].sigmaqn)
        if cls == "mpo":
            sq = add_outer(sq, -sq)
        elif cls == "mpdm":
            sq = add_outer(sq, np.zeros_like(sq))
        shape = (bonds[i],) + tuple(sq.shape[:-1]) + (bonds[i + 1],)
        m = lib.mask_for(sq, shape, i, [np.array(q) for q in qn], np.array([qntot]), qnidx)
        if i < qnidx:
            mat = m.reshape(-1, shape[-1])
            need = shape[-1]
        else:
            mat = m.reshape(shape[0], -1)
            need = shape[0]
        if not mat.any() or structural_rank(csr_matrix(mat.astype(int))) < need:
            return False
    return True


def build(ctx, P, name="a", kind="real"):
    from renormalizer.mps import MpDm
    model = lib.make_model(P["kinds"])
    qn = [np.array(q) for q in P["qn"]]
    if P["cls"] == "mpo":
        mp = lib.build_mpo(ctx, name, model, P["bonds"], qn, [P["qntot"]], P["qnidx"], to_right=P["to_right"], kind=kind)
    else:
        mp = lib.build_mps(ctx, name, model, P["bonds"], qn, [P["qntot"]], P["qnidx"], to_right=P["to_right"], kind=kind,
                           coeff="real", cls=MpDm if P["cls"] == "mpdm" else None)
    return model, mp


def isometry_relation(ctx, arr, left, upto_scale=False):
    """left: sum over (l, p..) of conj(A) A = I on the right bond; else on the left bond.
    upto_scale (operators): the Gram matrix is a multiple of the identity - Mpo sweeps deliberately move a
    scalar norm factor between neighbouring sites so that no single tensor carries the operator norm."""
    a = np.asarray(arr)
    if left:
        m = a.reshape(-1, a.shape[-1])
        g = np.conj(m.T).dot(m)
    else:
        m = a.reshape(a.shape[0], -1)
        g = m.dot(np.conj(m.T))
    if upto_scale == "orthogonal":
        # Mpo.compress leaves the singular values on the site it leaves (mp.py:_update_ms absorbs sigma into
        # u when an *operator* sweeps right): the columns are mutually orthogonal with norms sigma_k.
        k = g.shape[0]
        return ctx.all([ctx.eq(g[i, j], 0) for i in range(k) for j in range(k) if i != j])
    if upto_scale:
        k = g.shape[0]
        conds = [ctx.eq(g[i, j], 0) for i in range(k) for j in range(k) if i != j]
        conds += [ctx.eq(g[i, i], g[0, 0]) for i in range(1, k)]
        return ctx.all(conds)
    return ctx.eq(g, np.eye(g.shape[0]))


def bond_caps(mp):
    """largest bond dimension the physical dimensions on either side allow"""
    dims = []
    for i in range(mp.site_num):
        d = 1
        for s in mp[i].shape[1:-1]:
            d *= s
        dims.append(d)
    left = [1]
    for d in dims:
        left.append(left[-1] * d)
    right = [1]
    for d in dims[::-1]:
        right.append(right[-1] * d)
    right = right[::-1]
    return [min(a, b) for a, b in zip(left, right)]


class SvdSpy:
    """wraps svd_qn.svd_qn (call-through) to record what the sweep saw and produced"""

    def __init__(self):
        self.records = []

    def __enter__(self):
        from renormalizer.mps import svd_qn as sq
        self.sq = sq
        self.orig = sq.svd_qn
        spy = self

        def wrapped(*a, **k):
            res = spy.orig(*a, **k)
            spy.records.append((a, k, res))
            return res
        sq.svd_qn = wrapped
        return self

    def __exit__(self, *exc):
        self.sq.svd_qn = self.orig
        return False
