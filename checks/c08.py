"""C08 - ground/excited-state search: the effective-Hamiltonian obligation.

What the family can decide here is the algebraic core that makes DMRG variational: the matrix handed
to the eigensolver IS the projection of H onto the current tangent space.  For fully symbolic state
tensors, operator tensors, and coefficient vectors x, y:
     y^T H_eff x  =  < psi[c <- y] | H | psi[c <- x] >
for one-site and two-site updates, the direct (`get_ham_direct`) and the iterative (`get_ham_iterative`
diagonal + `hop_expr` operator) forms agree, restricted to the quantum-number mask; the (H - omega)^2
form; StackedMpo summation; and environments obtained by the incremental `GetLR(method="System")` update
after a site update equal freshly built ones.  With C04's isometry this gives Rayleigh-Ritz (energy upper
bound) - that inference, and everything about the float eigensolvers, is NOT machine-checked here.
"""
import itertools
import os
import sys

VERIF = os.path.dirname(os.path.dirname(os.path.abspath(__file__)))
sys.path.insert(0, VERIF)
REPO = os.environ.get("VERIF_REPO", "/repo")
sys.path.insert(0, REPO)

import numpy as np  # noqa: E402
from checks import common, lib, chainsteps as cs  # noqa: E402

PROP = "C08"
RUN_OPTS = dict(max_paths=500, budget_s=60.0)


def instances(tier, seed):
    out = []
    structs = [(("e", "e"), (1, 2, 1)), (("e", "e", "e"), (1, 2, 2, 1)), (("e", "w", "e"), (1, 2, 2, 1))]
    if tier == "thorough":
        structs += [(("e", "e", "e", "e"), (1, 2, 2, 2, 1)), (("e", "v", "e"), (1, 2, 2, 1)), (("e", "e", "e"), (1, 3, 2, 1)), (("e", "e", "e", "e", "e"), (1, 2, 2, 2, 2, 1)),
                    (("S", "S", "S"), (1, 2, 2, 1))]
    for kinds, bonds in structs:
        n = len(kinds)
        for idx in range(n):
            for qn in cs.label_sets("mps", kinds, bonds, 1, idx, 1 if tier == "quick" else 4, seed):
                for method in ("1site", "2site"):
                    for to_right in (True, False):
                        if method == "2site" and ((to_right and idx == n - 1) or ((not to_right) and idx == 0)):
                            continue
                        for variant in ("plain", "omega", "stacked", "environ"):
                            if variant == "omega" and (n > 2 and method == "2site"):
                                continue
                            out.append(dict(kinds=kinds, bonds=bonds, qn=qn, qnidx=idx, method=method, to_right=to_right, variant=variant,
                                            label="heff %s %s idx=%d right=%s %s qn=%s" % ("".join(kinds), method, idx, to_right, variant,
                                                                                        str([[r[0] for r in q] for q in qn]).replace(" ", "")), key="heff/%s/%s" % (method, variant)))
                            if variant == "plain" and to_right and (len(kinds) == 2 or (method == "1site" and tier == "thorough")):
                                d = dict(out[-1])
                                d.update(cplx=True, label=d["label"] + " complex state", key=d["key"] + "/complex")
                                out.append(d)
                            # operators with hopping blocks (local operators not symmetric in their physical indices)
                            if "w" not in kinds and (n == 2 or (tier == "thorough" and n == 3) or (n == 3 and variant == "plain")):
                                d = dict(out[-1] if not out[-1].get("cplx") else out[-2])
                                d.update(hop=True, label=d["label"] + " hopping operator", key=d["key"] + "/hop")
                                out.append(d)
    # the real optimize_mps driver (one sweep) with the eigensolver replaced by a contract stub: environment handling, the omega shift
    # and the mask at EVERY local step of the real sweep
    sw = [(("e", "e"), (1, 2, 1)), (("e", "e", "e"), (1, 2, 2, 1))]
    if tier == "thorough":
        sw += [(("e", "w", "e"), (1, 2, 2, 1)), (("e", "e", "e", "e"), (1, 2, 2, 2, 1)), (("e", "e", "e", "e", "e"), (1, 2, 2, 2, 2, 1)), (("e", "v", "e"), (1, 2, 3, 1))]
    for kinds, bonds in sw:
        n = len(kinds)
        for method in ("1site", "2site"):
            for start in ("left", "right"):
                for om in (False, True):
                    if om and n > 3:
                        continue
                    qn = [[[0]]] + [[[(0, 1, 1, 0)[k_]] for k_ in range(bonds[i_])] for i_ in range(1, n)] + [[[0]]]      # every bond carries the labels 0 and 1: both blocks are populated
                    if n == 2 or (tier == "thorough" and n == 3 and not om):
                        out.append(dict(op="sweep", kinds=kinds, bonds=bonds, qn=qn, qnidx=(n - 1 if start == "right" else 0), method=method, omega=om, obond=2, hop=True, run_opts=dict(budget_s=120.0),
                                        label="optimize_mps sweep %s %s centre starts %s omega=%s hopping operator" % ("".join(kinds), method, start, om), key="sweep/%s/%s/hop" % (method, "omega" if om else "plain")))
                    out.append(dict(op="sweep", kinds=kinds, bonds=bonds, qn=qn, qnidx=(n - 1 if start == "right" else 0), method=method, omega=om, obond=(1 if (om and n > 2) else 2),
                                    run_opts=dict(budget_s=120.0), label="optimize_mps sweep %s %s centre starts %s omega=%s" % ("".join(kinds), method, start, om), key="sweep/%s/%s" % (method, "omega" if om else "plain")))
    # tree optimiser: the real optimize_ttns recursion (two-site) with the eigensolver replaced by a contract stub
    trees = [((0, 0), (1, 1, 1), 1), ((0, 1), (1, 1, 1), 1), ((0, 0), (1, 1, 1), 2), ((0,), (2, 1), 1)]
    if tier == "thorough":
        trees += [((0, 0, 0), (0, 1, 1, 1), 1), ((0, 1), (1, 1, 1), 2), ((0, 0, 1), (1, 1, 0, 1), 1), ((0, 0, 0), (0, 1, 1, 1), 2), ((0,), (2, 1), 2), ((0, 1, 1), (0, 1, 1, 1), 1)]
    for par, cnt, q in trees:
        out.append(dict(op="tree_sweep", parents=list(par), counts=list(cnt), qntot=q, label="optimize_ttns sweep parents=%s counts=%s sector %d" % (list(par), list(cnt), q), key="tree_sweep"))
    return out


def sym_mpo(ctx, name, model, n, bond=2, hop=False):
    from renormalizer.mps import Mpo
    # charge-0 operator with symbolic entries on the label-allowed positions (bond labels all zero => number conserving blocks: on electron sites the
    # local operators are then diagonal).  hop=True: the operator bonds carry the labels 0 and 1, so creation-type blocks sit left of annihilation-type
    # blocks (hopping terms): local operators that are NOT symmetric in their two physical indices
    qn = [[[0]]] + [[[k % 2 if hop else 0] for k in range(bond)] for _ in range(n - 1)] + [[[0]]]
    bonds = [1] + [bond] * (n - 1) + [1]
    return lib.build_mpo(ctx, name, model, bonds, [np.array(q) for q in qn], [0], n - 1, kind="real")


class _StopSweep(Exception):
    pass


def h_sweep(ctx, P):
    from renormalizer.mps import Mps, Mpo, gs
    from renormalizer.mps.lib import cvec2cmat
    from renormalizer.utils import OptimizeConfig, CompressConfig, CompressCriteria
    from symnum import stubs
    model = lib.make_model(P["kinds"])
    n = model.nsite
    mps = lib.build_mps(ctx, "a", model, P["bonds"], [np.array(q) for q in P["qn"]], [1], P["qnidx"], to_right=(P["qnidx"] == 0), kind="real", coeff="one")
    mps.optimize_config = OptimizeConfig(procedure=[[8, 0]])
    mps.optimize_config.method = P["method"]
    mps.compress_config = CompressConfig(CompressCriteria.fixed, max_bonddim=8)
    mpo = sym_mpo(ctx, "o", model, n, bond=P.get("obond", 2), hop=P.get("hop", False))
    H = lib.dense_op(lib.tensors(mpo))
    omega = None
    Href = H
    if P["omega"]:
        omega = ctx.real("omega", 0.7)
        Hs = H - np.eye(H.shape[0], dtype=int) * omega
        Href = Hs.dot(Hs)
    conds = []
    steps = []
    cnt = [0]

    def fake_eigh(mps_, qn_mask, ltensor, rtensor, cmo, omega_):
        mask = np.asarray(qn_mask)
        K = int(mask.sum())
        ham = np.asarray(gs.get_ham_direct(mps_, qn_mask, ltensor, rtensor, cmo, omega_))
        if len(cmo) == 1:
            cidx = [mps_.qnidx]
        else:
            cidx = [mps_.qnidx, mps_.qnidx + 1] if mps_.to_right else [mps_.qnidx - 1, mps_.qnidx]
        steps.append(tuple(cidx))
        ts = lib.tensors(mps_)
        left, right = ts[:cidx[0]], ts[cidx[-1] + 1:]
        vecs = []
        for k_ in range(K):
            e = np.zeros(K)
            e[k_] = 1
            vecs.append(_contract(left + [np.asarray(cvec2cmat(e, mask))] + right))
        Hv = [Href.dot(v) for v in vecs]
        ref = np.empty((K, K), dtype=object if ctx.symbolic else float)
        for i in range(K):
            for j in range(K):
                ref[i, j] = sum((a * b for a, b in zip(vecs[i], Hv[j])), 0)
        conds.append(ctx.eq(ham, ref))
        cnt[0] += 1
        return ctx.real("e%d" % cnt[0], -0.3), ctx.array("c%d_" % cnt[0], (K,), "real")

    real_sweep = gs.single_sweep

    def one_sweep(*a, **k):
        real_sweep(*a, **k)
        raise _StopSweep()
    saved = (gs.eigh_direct, gs.single_sweep)
    gs.eigh_direct, gs.single_sweep = fake_eigh, one_sweep
    undo = None
    if ctx.symbolic:
        _, undo = stubs.lapack_contract(ctx, modules=("renormalizer.mps.svd_qn",))
    try:
        try:
            gs.optimize_mps(mps, mpo, omega=omega)
        except _StopSweep:
            pass
    finally:
        gs.eigh_direct, gs.single_sweep = saved
        if undo:
            undo()
    what = "(H - omega)^2" if P["omega"] else "H"
    ctx.check("optimize_mps: at every local step of the real sweep the matrix handed to the eigensolver = projection of %s onto the current centre coefficients" % what, ctx.all(conds))
    # sweep coverage: every site (pair) is optimised exactly once, in order, starting from the end the preparation leaves the centre at
    seq = [c[0] for c in steps]
    nsteps = n if P["method"] == "1site" else n - 1
    ctx.check("optimize_mps: one sweep optimises every site (pair) exactly once in sweep order", len(steps) == nsteps and (seq == sorted(seq) or seq == sorted(seq, reverse=True)) and len(set(steps)) == nsteps)


def h_tree_sweep(ctx, P):
    """the real tree optimiser for one macro-iteration: at every two-site step the operator handed to the eigensolver is the projection of H
    onto the masked two-site coefficients of the CURRENT state.  (The Davidson preconditioner `hdiag` is NOT an obligation: it only steers
    convergence.  Observation recorded in DESIGN.md: tn/hop_expr._get_hdiag tests whole index tuples against "_conj"/"up", so no index is
    renamed and the returned vector is a column sum rather than the diagonal.)"""
    from checks import treelib, c11, c12
    treelib.ensure_print_tree()
    from renormalizer.tn import gs as tngs
    from renormalizer.utils import OptimizeConfig, CompressConfig, CompressCriteria
    from symnum import stubs
    tree, nodes = treelib.build_basis_tree(P["parents"], P["counts"], ("e", "e", "e"))
    a = treelib.build_labelled_ttns(ctx, "a", tree, P["qntot"], 1)
    o = c11.sym_ttno(ctx, "o", tree, 2)
    O = treelib.dense_ttno(o)
    a.optimize_config = OptimizeConfig(procedure=[[4, 0]])
    a.compress_config = CompressConfig(CompressCriteria.fixed, max_bonddim=4)
    cur = {}
    conds = []
    cnt = [0]
    order = []
    real_hop2, real_eig = tngs.hop_expr2, tngs.eigh_iterative

    def hop2_wrapper(snode, ttns, ttno, ttne):
        cur["node"] = snode
        return real_hop2(snode, ttns, ttno, ttne)

    def fake_eig(hop, hdiag, cguess, algo):
        snode = cur["node"]
        ni, pi = a.node_idx[snode], a.node_idx[snode.parent]
        order.append(ni)
        mask = np.asarray(a.get_qnmask(snode, include_parent=True))
        K = int(mask.sum())
        cnt[0] += 1
        x = ctx.array("x%d_" % cnt[0], (K,), "real")
        xt = tngs.vec2tensor(np.asarray(x), mask) if not ctx.symbolic else _place(x, mask)
        psi_x = c12._dense_with_two(a, ni, pi, xt)
        Hpsi = O.dot(psi_x)
        full = c12._project_two(a, ni, pi, Hpsi, list(mask.shape))
        conds.append(ctx.eq(np.asarray(hop(x)), full[mask].ravel()))
        return ctx.real("e%d" % cnt[0], -0.4), ctx.array("c%d_" % cnt[0], (K,), "real")
    tngs.hop_expr2, tngs.eigh_iterative = hop2_wrapper, fake_eig
    undo = None
    if ctx.symbolic:
        _, undo = stubs.lapack_contract(ctx, modules=("renormalizer.mps.svd_qn",))
    try:
        tngs.optimize_ttns(a, o)
    finally:
        tngs.hop_expr2, tngs.eigh_iterative = real_hop2, real_eig
        if undo:
            undo()
    ctx.check("optimize_ttns: at every two-site step the operator handed to the eigensolver = projection of H onto the masked coefficients of the current state", ctx.all(conds))
    nonroot = [i for i, nd in enumerate(a.node_list) if nd.parent is not None]
    ctx.check("optimize_ttns: every bond is optimised (leaf bonds once, inner bonds twice per macro-iteration)",
              all(order.count(i) == (2 if a.node_list[i].children else 1) for i in nonroot) and len(order) == sum(2 if a.node_list[i].children else 1 for i in nonroot))
    ctx.check("optimize_ttns: labels of the optimised state stay valid, sector kept", ctx.all([c11.tree_inv(ctx, a), lib.ctx_eq_labels(ctx, a.qntot, [P["qntot"]])]))


def _place(x, mask):
    out = np.empty(mask.shape, dtype=object)
    out[...] = 0
    it = iter(np.asarray(x).ravel())
    for idx in zip(*np.nonzero(mask)):
        out[idx] = next(it)
    return out


def make_harness(P):
    if P.get("op") == "sweep":
        return lambda ctx: h_sweep(ctx, P)
    if P.get("op") == "tree_sweep":
        return lambda ctx: h_tree_sweep(ctx, P)

    def h(ctx):
        from renormalizer.mps import Mps, Mpo
        from renormalizer.mps.mpo import StackedMpo
        from renormalizer.mps.lib import Environ, cvec2cmat
        from renormalizer.mps.svd_qn import get_qn_mask
        from renormalizer.mps import gs
        from renormalizer.utils import OptimizeConfig
        from symnum import stubs
        model = lib.make_model(P["kinds"])
        n = model.nsite
        idx = P["qnidx"]
        mps = lib.build_mps(ctx, "a", model, P["bonds"], [np.array(q) for q in P["qn"]], [1], idx, to_right=P["to_right"], kind=("cplx" if P.get("cplx") else "real"), coeff="one")
        mps.optimize_config = OptimizeConfig()
        mps.optimize_config.method = P["method"]
        mpo = sym_mpo(ctx, "o", model, n, hop=P.get("hop", False))
        H = lib.dense_op(lib.tensors(mpo))
        variant = P["variant"]
        if P["method"] == "1site":
            cidx = [idx]
        else:
            cidx = [idx, idx + 1] if P["to_right"] else [idx - 1, idx]
        lidx, ridx = cidx[0] - 1, cidx[-1] + 1
        omega = None
        operator = mpo
        if variant == "omega":
            omega = 0.5
            operator = [mpo, mpo]
            Heff_dense = H.dot(H)
        elif variant == "stacked":
            mpo2 = sym_mpo(ctx, "p", model, n, hop=P.get("hop", False))
            H2 = lib.dense_op(lib.tensors(mpo2))
            Heff_dense = H + H2
        else:
            Heff_dense = H
        qnbigl, qnbigr, qnmat = mps._get_big_qn(cidx)
        mask = np.asarray(get_qn_mask(qnmat, mps.qntot))
        K = int(mask.sum())
        if K == 0:
            return
        cmo = [mpo[i].array for i in cidx]

        def envs(op_):
            env = Environ(mps, op_, None)
            lt = env.GetLR("L", lidx, mps, op_, itensor=None, method="Enviro")
            rt = env.GetLR("R", ridx, mps, op_, itensor=None, method="Enviro")
            return env, lt, rt
        if variant == "stacked":
            e1, l1, r1 = envs(mpo)
            e2, l2, r2 = envs(mpo2)
            ham = gs.get_ham_direct(mps, mask, l1, r1, cmo, None) + gs.get_ham_direct(mps, mask, l2, r2, [mpo2[i].array for i in cidx], None)
        else:
            env, lt, rt = envs(operator)
            ham = gs.get_ham_direct(mps, mask, lt, rt, cmo, omega)
        ham = np.asarray(ham)
        # reference: <e_i| H |e_j> with the centre coefficient replaced by unit vectors on the masked positions
        ts = lib.tensors(mps)
        left, right = ts[:cidx[0]], ts[cidx[-1] + 1:]
        basis_vecs = []
        for k_ in range(K):
            e = np.zeros(K)
            e[k_] = 1
            c = cvec2cmat(e, mask)
            basis_vecs.append(_contract(left + [np.asarray(c)] + right))
        ref = np.empty((K, K), dtype=object if ctx.symbolic else complex)
        Hv = [Heff_dense.dot(v) for v in basis_vecs]
        for i in range(K):
            for j in range(K):
                ref[i, j] = sum((lib.conj(a) * b for a, b in zip(basis_vecs[i], Hv[j])), 0)
        ctx.check("direct effective Hamiltonian = projection of H onto the masked centre coefficients", ctx.eq(ham, ref))
        if variant in ("plain", "omega"):
            hdiag, expr = gs.get_ham_iterative(mps, mask, lt, rt, cmo, omega)
            ctx.check("iterative preconditioner = diagonal of the effective Hamiltonian", ctx.eq(np.asarray(hdiag), np.array([ham[i, i] for i in range(K)], dtype=ham.dtype)))
            x = ctx.array("x", (K,), "real")
            X_ = np.asarray(cvec2cmat(x, mask))
            hx = np.asarray(expr(X_))[mask]
            if variant == "omega":
                # the two-layer contraction of hop_expr feeds the coefficient into the upper layer, i.e. it applies the
                # TRANSPOSE of the matrix get_ham_direct returns; for a Hermitian (real symmetric) H both coincide, which is
                # the only case the optimiser supports.  The obligation is stated with the transpose so that it holds for
                # the arbitrary (non-symmetric) symbolic operator used here.
                ctx.check("iterative operator application = H_eff^T x on the masked entries (two-layer form; = H_eff x for Hermitian H)", ctx.eq(hx, ham.T.dot(x)))
            else:
                ctx.check("iterative operator application = H_eff x on the masked entries (direct = iterative)", ctx.eq(hx, ham.dot(x)))
        if variant == "environ":
            # incremental environment update after a site update equals a freshly built environment
            undo = None
            if ctx.symbolic:
                _, undo = stubs.lapack_contract(ctx, modules=("renormalizer.mps.svd_qn",))
            try:
                cnew = lib.masked_array(ctx, "c", mask.shape, "real", mask)
                from renormalizer.utils import CompressConfig, CompressCriteria
                mps.compress_config = CompressConfig(CompressCriteria.fixed, max_bonddim=8)
                mps._update_mps(cnew, cidx, qnbigl, qnbigr, 0)
            finally:
                if undo:
                    undo()
            if P["to_right"]:
                site = cidx[0]
                upd = env.GetLR("L", site, mps, mpo, itensor=None, method="System")
                fresh = Environ(mps, mpo, "L").read("L", site) if site < n - 1 else None
            else:
                site = cidx[-1]
                upd = env.GetLR("R", site, mps, mpo, itensor=None, method="System")
                fresh = Environ(mps, mpo, "R").read("R", site) if site > 0 else None
            if fresh is not None:
                ctx.check("environment after the incremental update = freshly built environment", ctx.eq(np.asarray(upd), np.asarray(fresh)))
    return h


def _contract(ts):
    res = np.ones((1, 1), dtype=object if any(np.asarray(t).dtype == object for t in ts) else float)
    for t in ts:
        t = np.asarray(t)
        res = np.tensordot(res, t, axes=([-1], [0]))
        res = res.reshape(-1, t.shape[-1])
    return res[:, 0]


def _tn_gs():
    from checks import treelib
    treelib.ensure_print_tree()
    from renormalizer.tn import gs as tngs
    return tngs


def main(tier, seed):
    from renormalizer.mps import gs, hop_expr as he, lib as mlib
    return common.run_check(
        PROP, "checks.c08", tier, seed,
        explanation="get_ham_direct, get_ham_iterative (diagonal + hop_expr operator), the (H-omega)^2 two-layer form, StackedMpo summation the incremental environment update, and the REAL optimize_mps driver "
                    "for one sweep with the eigensolver replaced by a contract stub (arbitrary energy and coefficients; symbolic omega: matrix at every local step = projection of H resp. "
                    "(H - omega)^2 on the current state, every site (pair) optimised once in order), and the real tree optimiser optimize_ttns for one macro-iteration "
                    "on labelled 3-4 node trees (operator at every two-site step = projection of H on the masked coefficients, every bond visited, labels kept) "
                    "on chains of 2-3 (thorough 4) sites with fully symbolic state and operator tensors (bond 2), every centre position, one- and two-site, both directions, "
                    "restricted to the quantum-number mask: every matrix element equals <e_i|H|e_j> computed from the dense operator and the dense tangent vectors.",
        assumptions=["NOT covered (DESIGN.md section 2): 'the reported energy is an upper bound', agreement with exact diagonalisation at full bond dimension, Davidson/ARPACK/primme "
                     "behaviour, convergence of sweeps - results of floating-point eigen-iterations. The Rayleigh-Ritz bound follows from the obligation checked here plus the "
                     "isometry of the non-centre sites (C04); that inference is recorded, not machine-checked",
                     "real-valued tensors; tree counterparts are under C12/C11", "normalisation and sector of the returned state: C04/C06 step lemmas (_update_mps in C06)"],
        trusted_base=["z3 5.1", "NumPy object loops", "opt_einsum path execution on object arrays"],
        functions=[gs.optimize_mps, gs.single_sweep, _tn_gs().optimize_ttns, _tn_gs().optimize_recursion, _tn_gs().optimize_2site, gs.get_ham_direct, gs.get_ham_iterative, he.hop_expr, mlib.Environ.GetLR, mlib.Environ._construct, mlib.contract_one_site, mlib.contract_one_site_multi_mpo, mlib.cvec2cmat])


if __name__ == "__main__":
    import argparse
    ap = argparse.ArgumentParser()
    ap.add_argument("--tier", default=os.environ.get("VERIF_TIER", "quick"))
    a = ap.parse_args()
    sys.exit(main(a.tier, int(os.environ.get("VERIF_SEED", "0"))))
