"""C06 - conserved quantum numbers are never violated.

The representation invariant Inv (DESIGN.md C06) is the workhorse: C03/C04/C05 already discharge
"Inv holds on the result" for arithmetic, canonicalisation and truncation.  This check adds
 (a) the same step lemmas with *symbolic integer labels* (all label values at once) for add, scale,
     move_qnidx, Mpo.apply, Mpo.conj_trans - the pre-state is constrained only by Inv itself;
 (b) the site update used by the optimiser and by projector-splitting evolution (_update_mps, one- and
     two-site, SVD full mode + select_basis, with and without percent, truncating or not);
 (c) the constructors (hartree_product_state with every qn centre, Mps.random with symbolic draws,
     ground_state, MpDm.max_entangled_gs/ex);
 (d) the masks (get_qn_mask, cvec2cmat round trip, _get_big_qn).
"""
import itertools
import os
import sys

VERIF = os.path.dirname(os.path.dirname(os.path.abspath(__file__)))
sys.path.insert(0, VERIF)
REPO = os.environ.get("VERIF_REPO", "/repo")
sys.path.insert(0, REPO)

import numpy as np  # noqa: E402
from checks import common, lib, chainsteps as cs  # noqa: E402

PROP = "C06"
RUN_OPTS = dict(max_paths=4000, budget_s=40.0)


def instances(tier, seed):
    out = []

    def add(op, **kw):
        kw["op"] = op
        kw["label"] = op + " " + " ".join("%s=%s" % (k, str(v).replace(" ", "")) for k, v in sorted(kw.items()) if k not in ("op",))
        kw["label"] = kw["label"][:230]
        kw["key"] = op
        if op == "ground_state" and ("S" in kw["kinds"] or "E2" in kw["kinds"]):      # both are BasisHalfSpin with non-zero sigmaqn
            kw["key"] = "ground_state[half-spin basis with non-zero sigmaqn]"
        out.append(kw)

    # (a) symbolic labels
    shapes = [(("e", "e"), (1, 2, 1)), (("e", "e", "e"), (1, 2, 2, 1))] if tier == "quick" else \
        [(("e", "e"), (1, 2, 1)), (("e", "e", "e"), (1, 2, 2, 1)), (("e", "w", "e"), (1, 2, 2, 1)), (("e", "e", "e"), (1, 2, 3, 1))]
    for kinds, bonds in shapes:
        n = len(kinds)
        for qa in range(n):
            add("symlab_scale_move", kinds=kinds, bonds=bonds, qa=qa)
            for qb in range(n):
                add("symlab_add", kinds=kinds, bonds=bonds, qa=qa, qb=qb)
                if n == 2 or tier == "thorough" or (qa in (0, n - 1) and qb in (0, n - 1)):
                    add("symlab_apply", kinds=kinds, bonds=bonds, qa=qa, qb=qb)
            add("symlab_conj_trans", kinds=kinds, bonds=bonds, qa=qa)
    # (b) site update
    structs = [("mps", ("e", "e"), (1, 2, 1)), ("mps", ("e", "e", "e"), (1, 2, 2, 1))]
    if tier == "thorough":
        structs += [("mps", ("e", "w", "e"), (1, 2, 2, 1)), ("mpdm", ("e", "e"), (1, 2, 1)), ("mps", ("e", "e", "e", "e"), (1, 2, 2, 2, 1))]
    cap = 2 if tier == "quick" else 4
    for cls, kinds, bonds in structs:
        n = len(kinds)
        for idx in range(n):
            for qn in cs.label_sets(cls, kinds, bonds, 1, idx, cap, seed):
                for to_right in (True, False):
                    for M in (8, 1):
                        add("update_1site", cls=cls, kinds=kinds, bonds=bonds, qn=qn, qntot=1, qnidx=idx, to_right=to_right, M=M, percent=0)
                    if tier == "thorough":
                        add("update_1site", cls=cls, kinds=kinds, bonds=bonds, qn=qn, qntot=1, qnidx=idx, to_right=to_right, M=2, percent=0.5)
                    if (to_right and idx < n - 1) or ((not to_right) and idx > 0):
                        add("update_2site", cls=cls, kinds=kinds, bonds=bonds, qn=qn, qntot=1, qnidx=idx, to_right=to_right, M=8, percent=0)
                        add("update_2site", cls=cls, kinds=kinds, bonds=bonds, qn=qn, qntot=1, qnidx=idx, to_right=to_right, M=1, percent=0)
    # (c) constructors
    for kinds in ([("e", "e"), ("e", "e", "e"), ("e", "w", "e"), ("s", "w"), ("S", "S")] if tier == "quick" else
                  [("e", "e"), ("e", "e", "e"), ("e", "w", "e"), ("s", "w"), ("S", "S"), ("e", "v", "e", "w"), ("E2", "E2", "E2"), ("S", "S", "S")]):
        n = len(kinds)
        for occ in itertools.product((0, 1), repeat=n):
            for qn_idx in list(range(n)) + [None]:
                add("hartree", kinds=kinds, occ=occ, qn_idx=qn_idx)
        add("hartree_vec", kinds=kinds)
        add("ground_state", kinds=kinds, max_entangled=False)
        add("ground_state", kinds=kinds, max_entangled=True)
        if "e" in kinds:
            add("max_entangled", kinds=kinds, which="gs")
            add("max_entangled", kinds=kinds, which="ex")
    # sectors next to the empty / the completely filled one with small bond limits included: there the random selection of kept labels can run into dead ends
    for kinds, qntot, m in ([(("e", "e"), 1, 2), (("e", "e", "e"), 1, 2), (("e", "e", "e"), 2, 2), (("e", "e", "e"), 3, 2), (("e", "e", "e"), 3, 1), (("e", "e"), 2, 1), (("e", "e", "e"), 0, 1)]
                            if tier == "quick" else
                            [(("e", "e"), 1, 2), (("e", "e", "e"), 1, 2), (("e", "e", "e"), 2, 2), (("e", "w", "e"), 1, 3), (("e", "e", "e", "e"), 2, 2), (("e", "e", "e"), 3, 2),
                             (("e", "e", "e"), 3, 1), (("e", "e"), 2, 1), (("e", "e", "e"), 0, 1), (("e", "e", "e", "e"), 2, 1), (("e", "e", "e", "e"), 4, 2), (("e", "w", "e", "w"), 2, 1)]):
        add("random", kinds=kinds, qntot=qntot, m=m)
    # long thin chains (11 sites): label bookkeeping that runs over more than ten bonds / two-digit site indices
    k11 = tuple(["e"] * 11)
    for occ in ((0, 1, 0, 0, 1, 0, 0, 0, 1, 0, 0), (1,) + (0,) * 9 + (1,), (0,) * 11):
        for qn_idx in (0, 5, 10, None):
            add("hartree", kinds=k11, occ=occ, qn_idx=qn_idx)
    add("random", kinds=k11, qntot=3, m=1)
    add("random", kinds=k11, qntot=1, m=1)
    if tier == "thorough":
        add("random", kinds=k11, qntot=1, m=2)
    # (d) masks
    for kinds, bonds in shapes[:2]:
        n = len(kinds)
        for idx in range(n):
            for qn in cs.label_sets("mps", kinds, bonds, 1, idx, 2, seed):
                add("masks", kinds=kinds, bonds=bonds, qn=qn, qnidx=idx)
    return out


# ---------------------------------------------------------------------------------------------
def sym_labelled(ctx, name, model, bonds, qnidx, qt, cls="mps", lo=-1, hi=2):
    """operand with symbolic entries AND symbolic bond labels; the only constraint is Inv (assumed)"""
    from renormalizer.mps import Mps, Mpo
    n = model.nsite
    mp = Mps() if cls == "mps" else Mpo()
    mp.model = model
    qn = [np.zeros((1, 1), dtype=int)]
    for b in range(1, n):
        labs = [ctx.integer("%s.q%d_%d" % (name, b, k)) for k in range(bonds[b])]
        for v in labs:
            ctx.assume(ctx.all([ctx.le(lo, v), ctx.le(v, hi)]), "label range")
        qn.append(np.array([[v] for v in labs], dtype=object if ctx.symbolic else int))
    qn.append(np.zeros((1, 1), dtype=int))
    for i in range(n):
        sq = np.asarray(mp._get_sigmaqn(i))
        shape = (bonds[i],) + tuple(sq.shape[:-1]) + (bonds[i + 1],)
        mp.append(ctx.array("%s%d" % (name, i), shape, "real"))
    mp.qn = qn
    mp.qntot = np.array([qt], dtype=object if ctx.symbolic else int)
    mp.qnidx = qnidx
    mp.to_right = qnidx == 0
    if cls == "mps":
        mp.coeff = 1
    ctx.assume(lib.inv_relation(ctx, mp), "pre-state satisfies Inv")
    return mp


def make_harness(P):
    op = P["op"]

    def h(ctx):
        from renormalizer.mps import Mps, Mpo, MpDm
        from symnum import stubs
        if op.startswith("symlab"):
            model = lib.make_model(P["kinds"])
            qt = ctx.integer("qtot", 1)
            ctx.assume(ctx.all([ctx.le(-1, qt), ctx.le(qt, 3)]), "qntot range")
            if op == "symlab_add":
                a = sym_labelled(ctx, "a", model, P["bonds"], P["qa"], qt)
                b = sym_labelled(ctx, "b", model, P["bonds"], P["qb"], qt)
                c = a.add(b)
                ctx.check("add keeps Inv for all label values", lib.inv_relation(ctx, c))
                ctx.check("add keeps the sector", lib.ctx_eq_labels(ctx, c.qntot, [qt]))
                if model.nsite == 2:
                    ctx.check("add: zero amplitude outside the sector", lib.sector_relation(ctx, model, lib.dense_of(c), [qt]))
            elif op == "symlab_scale_move":
                a = sym_labelled(ctx, "a", model, P["bonds"], P["qa"], qt)
                c = a.scale(ctx.real("val", 2.5))
                ctx.check("scale keeps Inv", lib.inv_relation(ctx, c))
                for dst in range(model.nsite):
                    d = a.copy()
                    d.move_qnidx(dst)
                    ctx.check("move_qnidx keeps Inv for every target", ctx.all([lib.inv_relation(ctx, d), d.qnidx == dst]))
                    d.move_qnidx(P["qa"])
                    ctx.check("move_qnidx round trip restores the labels", ctx.all([lib.ctx_eq_labels(ctx, x, y) for x, y in zip(d.qn, a.qn)]))
            elif op == "symlab_apply":
                a = sym_labelled(ctx, "a", model, P["bonds"], P["qa"], qt)
                dq = ctx.integer("dq", 1)
                ctx.assume(ctx.all([ctx.le(-1, dq), ctx.le(dq, 1)]), "operator charge range")
                o = sym_labelled(ctx, "o", model, P["bonds"], P["qb"], dq, cls="mpo", lo=-2, hi=2)
                c = o.apply(a)
                ctx.check("apply keeps Inv for all label values", lib.inv_relation(ctx, c))
                ctx.check("apply shifts the sector by the operator charge", lib.ctx_eq_labels(ctx, c.qntot, [qt + dq]))
                ctx.check("apply: the operands keep their own sector and stay valid (the result's sector update must not reach them)",
                          ctx.all([lib.ctx_eq_labels(ctx, a.qntot, [qt]), lib.ctx_eq_labels(ctx, o.qntot, [dq]), lib.inv_relation(ctx, a), lib.inv_relation(ctx, o)]))
                c2 = o.apply(a)
                ctx.check("apply twice on the same operand: same sector both times", lib.ctx_eq_labels(ctx, c2.qntot, [qt + dq]))
                if model.nsite == 2:
                    # for longer chains this is the induction "Inv => sector" (recorded in the evidence); the dense
                    # polynomial form is beyond nlsat with symbolic labels
                    ctx.check("apply: zero amplitude outside the shifted sector", lib.sector_relation(ctx, model, lib.dense_of(c), [qt + dq]))
            elif op == "symlab_conj_trans":
                dq = ctx.integer("dq", 1)
                ctx.assume(ctx.all([ctx.le(-1, dq), ctx.le(dq, 1)]), "operator charge range")
                o = sym_labelled(ctx, "o", model, P["bonds"], P["qa"], dq, cls="mpo", lo=-2, hi=2)
                c = o.conj_trans()
                ctx.check("conj_trans keeps Inv for all label values", lib.inv_relation(ctx, c))
                ctx.check("conj_trans negates the charge", lib.ctx_eq_labels(ctx, c.qntot, [-dq]))
            return
        if op in ("update_1site", "update_2site"):
            return h_update(ctx, P)
        if op == "hartree":
            model = lib.make_model(P["kinds"])
            cond = {}
            for i, (b, o) in enumerate(zip(model.basis, P["occ"])):
                if o:
                    cond[b.dofs[0]] = 1
            mps = Mps.hartree_product_state(model, cond, qn_idx=P["qn_idx"])
            exp_q = sum(np.asarray(b.sigmaqn)[o] for b, o in zip(model.basis, P["occ"]))
            ctx.check("hartree: invariant", lib.inv_relation(ctx, mps))
            ctx.check("hartree: sector is the sum of the occupied local labels", lib.ctx_eq_labels(ctx, mps.qntot, exp_q))
            ctx.check("hartree: centre where requested", mps.qnidx == (P["qn_idx"] if P["qn_idx"] is not None else model.nsite - 1))
            ctx.check("hartree: zero amplitude outside the sector", lib.sector_relation(ctx, model, lib.dense_of(mps), mps.qntot))
            return
        if op == "hartree_vec":
            model = lib.make_model(P["kinds"])
            # a superposition inside one local sector on the first site that has one
            cond = {}
            for b in model.basis:
                sq = np.asarray(b.sigmaqn)
                same = [k for k in range(len(sq)) if np.all(sq[k] == sq[0])]
                if len(same) >= 2:
                    vec = [0.0] * len(sq)
                    amps = ctx.array("amp", (len(same),), "real")
                    ctx.assume(ctx.nonzero(amps[0]), "local state vector not zero")
                    vec = np.zeros(len(sq), dtype=object if ctx.symbolic else float)
                    for j, k in enumerate(same):
                        vec[k] = amps[j]
                    cond[b.dofs[0]] = vec
                    break
            if not cond:
                return
            mps = Mps.hartree_product_state(model, cond)
            ctx.check("hartree(vector): invariant", lib.inv_relation(ctx, mps))
            ctx.check("hartree(vector): zero amplitude outside the sector", lib.sector_relation(ctx, model, lib.dense_of(mps), mps.qntot))
            return
        if op == "ground_state":
            model = lib.make_model(P["kinds"])
            mps = Mps.ground_state(model, max_entangled=P["max_entangled"])
            ctx.check("ground_state: invariant", lib.inv_relation(ctx, mps))
            ctx.check("ground_state: zero amplitude outside the advertised sector", lib.sector_relation(ctx, model, lib.dense_of(mps), mps.qntot))
            return
        if op == "max_entangled":
            model = lib.make_model(P["kinds"])
            d = MpDm.max_entangled_gs(model) if P["which"] == "gs" else MpDm.max_entangled_ex(model)
            ctx.check("max_entangled: invariant", lib.inv_relation(ctx, d))
            exp = 0 if P["which"] == "gs" else 1
            ctx.check("max_entangled: sector", lib.ctx_eq_labels(ctx, d.qntot, [exp]))
            return
        if op == "random":
            model = lib.make_model(P["kinds"])
            undo = None
            if ctx.symbolic:
                stubs.SYMBOLIC_RANDOM = True
                _, undo = stubs.lapack_contract(ctx, modules=("renormalizer.mps.mps",))
            try:
                mps = Mps.random(model, P["qntot"], P["m"], percent=1.0)
            finally:
                stubs.SYMBOLIC_RANDOM = False
                if undo:
                    undo()
            ctx.check("random: invariant", lib.inv_relation(ctx, mps))
            ctx.check("random: sector", lib.ctx_eq_labels(ctx, mps.qntot, [P["qntot"]]))
            ctx.check("random: zero amplitude outside the sector", lib.sector_relation(ctx, model, lib.dense_of(mps), [P["qntot"]]))
            ctx.check("random: bond limit", all(b <= P["m"] for b in mps.bond_dims))
            return
        if op == "masks":
            from renormalizer.mps.svd_qn import get_qn_mask
            from renormalizer.mps.lib import cvec2cmat
            model = lib.make_model(P["kinds"])
            n = model.nsite
            qn = [np.array(q) for q in P["qn"]]
            mp = lib.build_mps(ctx, "a", model, P["bonds"], qn, [1], P["qnidx"], kind="real")
            idx = P["qnidx"]
            qnbigl, qnbigr, qnmat = mp._get_big_qn([idx])
            mask = get_qn_mask(qnmat, mp.qntot)
            exp = lib.mask_for(np.asarray(mp._get_sigmaqn(idx)), mp[idx].shape, idx, qn, np.array([1]), idx)
            ctx.check("one-site mask equals the label rule at the centre", bool(np.all(np.asarray(mask).reshape(exp.shape) == exp)))
            k = int(np.sum(mask))
            c = ctx.array("c", (k,), "real")
            cm = cvec2cmat(c, mask)
            ctx.check("cvec2cmat round trip", ctx.eq(np.asarray(cm)[mask], c))
            ctx.check("cvec2cmat zero outside the mask", ctx.eq(np.asarray(cm)[~mask], np.zeros(int(np.sum(~mask)))))
            if idx < n - 1:
                qnbigl2, qnbigr2, qnmat2 = mp._get_big_qn([idx, idx + 1])
                mask2 = get_qn_mask(qnmat2, mp.qntot)
                two = np.tensordot(mp[idx].array, mp[idx + 1].array, axes=1)
                # every entry of the two-site tensor outside the two-site mask vanishes identically
                ctx.check("two-site mask covers the support of the two-site tensor", ctx.eq(two[~np.asarray(mask2)], np.zeros(int(np.sum(~np.asarray(mask2))))))
            return
        raise ValueError(op)
    return h


def h_update(ctx, P):
    from symnum import stubs
    from renormalizer.utils import CompressConfig, CompressCriteria
    from renormalizer.mps.svd_qn import get_qn_mask
    model, mp = cs.build(ctx, P)
    n = mp.site_num
    idx = P["qnidx"]
    two = P["op"] == "update_2site"
    if two:
        cidx = [idx, idx + 1] if P["to_right"] else [idx - 1, idx]
    else:
        cidx = [idx]
    cfg = CompressConfig(CompressCriteria.fixed, max_bonddim=P["M"])
    mp.compress_config = cfg
    qnbigl, qnbigr, qnmat = mp._get_big_qn(cidx)
    mask = np.asarray(get_qn_mask(qnmat, mp.qntot))
    if not mask.any():
        return      # label structure without any allowed centre entry: the chain can only represent the zero vector, no update is defined (svd_qn raises)
    cs_shape = mask.shape
    c = lib.masked_array(ctx, "c", cs_shape, "real", mask)
    # the state the update is supposed to represent: c at the centre site(s), the rest as is
    ts = lib.tensors(mp)
    if two:
        merged = ts[:cidx[0]] + [None] + ts[cidx[1] + 1:]
    undo = None
    if ctx.symbolic:
        _, undo = stubs.lapack_contract(ctx, modules=("renormalizer.mps.svd_qn",))
    try:
        ret = mp._update_mps(c, cidx, qnbigl, qnbigr, P["percent"])
    finally:
        if undo:
            undo()
    ctx.check("update: invariant holds on the updated state", lib.inv_relation(ctx, mp))
    ctx.check("update: sector unchanged", lib.ctx_eq_labels(ctx, mp.qntot, [P["qntot"]]))
    if two:
        ctx.check("update: bond limit respected on the bond that was rebuilt", mp.bond_dims[cidx[1]] <= max(P["M"], 1))
    else:
        nb = (idx + 1 if P["to_right"] else idx)
        if 0 < nb < n:
            ctx.check("update: bond limit respected on the bond that was rebuilt", mp.bond_dims[nb] <= max(P["M"], 1))
    ctx.check("update: zero amplitude outside the sector", lib.sector_relation(ctx, model, lib.dense_vec(lib.tensors(mp)) if mp[0].ndim == 3 else lib.dense_op(lib.tensors(mp)).reshape(-1), [P["qntot"]])
              if mp[0].ndim == 3 else True)
    exp_centre = None
    if two:
        exp_centre = cidx[1] if P["to_right"] else cidx[0]
    else:
        if P["to_right"]:
            exp_centre = idx + 1 if idx != n - 1 else n - 1
        else:
            exp_centre = idx - 1 if idx != 0 else 0
    ctx.check("update: centre moved in the sweep direction", mp.qnidx == exp_centre)
    if P["M"] >= 8 and P["percent"] == 0:
        # lossless: the represented tensor is c in place of the centre site(s)
        if two:
            left = ts[:cidx[0]]
            right = ts[cidx[1] + 1:]
            new = lib.tensors(mp)
            got = _contract_chain(new)
            ref = _contract_chain(left + [c] + right, merged_two=len(left))
            ctx.check("update (lossless): represented state is the new two-site coefficient tensor in place", ctx.eq(got, ref))
        else:
            got = _contract_chain(lib.tensors(mp))
            ref = _contract_chain(ts[:idx] + [c] + ts[idx + 1:])
            ctx.check("update (lossless): represented state is the new coefficient tensor in place", ctx.eq(got, ref))


def _contract_chain(ts, merged_two=None):
    """dense contraction of (l, p.., r) tensors with any number of physical legs per tensor"""
    res = np.ones((1, 1), dtype=object if any(np.asarray(t).dtype == object for t in ts) else float)
    for t in ts:
        t = np.asarray(t)
        res = np.tensordot(res, t, axes=([-1], [0]))
        res = res.reshape(-1, t.shape[-1])
    return res[:, 0]


def main(tier, seed):
    from renormalizer.mps import mp as mpmod, mps as mpsmod, mpo as mpomod, mpdm as mpdmmod, lib as mlib, svd_qn as sq
    MP, M, O, D = mpmod.MatrixProduct, mpsmod.Mps, mpomod.Mpo, mpdmmod.MpDm
    return common.run_check(
        PROP, "checks.c06", tier, seed,
        explanation="(a) add / scale / move_qnidx / Mpo.apply / Mpo.conj_trans with SYMBOLIC INTEGER bond labels, qntot and operator charge (pre-state constrained only by the "
                    "invariant): the result satisfies the invariant, the sector shifts by the charge, no amplitude outside the sector; (b) the real _update_mps (one- and two-site, "
                    "SVD full mode by contract + select_basis, bond limits 8 and 1) from an arbitrary valid pre-state and an arbitrary mask-respecting coefficient tensor; "
                    "(c) hartree_product_state for every occupation pattern and every qn centre, Mps.random with symbolic draws (eigh by contract), ground_state, "
                    "MpDm.max_entangled_gs/ex; (d) get_qn_mask / cvec2cmat / _get_big_qn. Arithmetic, canonicalisation and truncation steps are covered by the invariant "
                    "obligations inside C03/C04/C05.",
        assumptions=["whole optimiser / evolution loops stay in the sector by the step lemmas (C03-C05 + _update_mps here), not by end-to-end execution",
                     "LAPACK by contract", "label values range over -1..2 (operators -2..2), charges -1..1, one label component in the symbolic-label runs",
                     "tree tensor networks are under C11"],
        trusted_base=["z3 5.1", "NumPy object loops", "LAPACK contract stubs"],
        functions=[MP.add, MP.scale, MP.move_qnidx, O.apply, O.conj_trans, MP._update_mps, MP._get_big_qn, mlib.select_basis, mlib.cvec2cmat, sq.get_qn_mask, sq.svd_qn,
                   M.hartree_product_state, M.random, M.ground_state, D.max_entangled_ex, D.max_entangled_gs, D.from_mps])


if __name__ == "__main__":
    import argparse
    ap = argparse.ArgumentParser()
    ap.add_argument("--tier", default=os.environ.get("VERIF_TIER", "quick"))
    a = ap.parse_args()
    sys.exit(main(a.tier, int(os.environ.get("VERIF_SEED", "0"))))
