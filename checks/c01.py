"""C01 - automatic MPO construction is exact for every sum-of-products operator.

Every term factor and the offset are solver variables; the model (ordered list of basis sets) and the
*structure* of the term table (which primary operator sits at which site of which term) are
enumerated.  The real pipeline runs: Op / Model.check_operator_terms / _terms_to_table /
_deduplicate_table / construct_symbolic_mpo (Hopcroft-Karp, Hungarian, QR) / compose_symbolic_mo /
symbolic_mo_to_numeric_mo / Mpo.todense, and for swaps Mpo.try_swap_site / swap_site.
Obligation: Mpo.todense() == sum_k f_k (x) local matrices - offset * 1 for ALL factor values;
after adjacent swaps the same operator in the new site order; labels valid; for the graph algorithms
the bond dimension at every cut equals the maximum matching of the cut's incidence matrix (C20).
"""
import itertools
import os
import sys

VERIF = os.path.dirname(os.path.dirname(os.path.abspath(__file__)))
sys.path.insert(0, VERIF)
REPO = os.environ.get("VERIF_REPO", "/repo")
sys.path.insert(0, REPO)

import numpy as np  # noqa: E402
from checks import common, lib  # noqa: E402

PROP = "C01"
RUN_OPTS = dict(max_paths=3000, budget_s=40.0)

# per site kind: list of (symbol string, dof selector, charge) ; index 0 is the identity
POOL = {
    "s": [("I", 0), ("X", 0), ("Z", 0), ("sigma_+", 0), ("X Z", 0)],
    "e": [("I", 0), (r"a^\dagger", 1), ("a", -1), (r"a^\dagger a", 0)],
    "w": [("I", 0), ("x", 0), (r"b^\dagger b", 0), ("x x", 0)],
    "v": [("I", 0), ("x", 0), (r"b^\dagger b", 0), (r"b^\dagger", 0)],
    "u": [("I", 0), ("x", 0), ("x^2", 0)],          # shifted-origin oscillator
    "W": [("I", 0), ("x", 0), ("p^2", 0), ("x^2", 0)],   # oscillators of the same class and size whose parameters differ from site to site
    "m": [("I", 0), ("m01", 0), ("m10", 0), ("m11", 0)],   # two-dof multi-electron site
}


def basis_for(kind, i):
    from renormalizer.model import basis as ba
    if kind == "u":
        return ba.BasisSHO("v%d" % i, 1.3, 3, x0=0.7)
    if kind == "m":
        return ba.BasisMultiElectron(["m%da" % i, "m%db" % i], [0, 0])
    if kind == "W":
        # frequencies 1/2, 2, 8: every matrix entry is a dyadic rational, so that products of entries of different sites are exact in floats
        return ba.BasisSHO("v%d" % i, [0.5, 2.0, 8.0][i % 3], 2, x0=0.25 * i)
    return lib.site_basis(kind, i)


def site_op(kind, i, k):
    """Op for pool entry k of site i (factor 1)"""
    from renormalizer.model import Op
    sym, q = POOL[kind][k]
    b = basis_for(kind, i)
    if kind == "m":
        a, bb = b.dofs
        return {"m01": Op(r"a^\dagger a", [a, bb]), "m10": Op(r"a^\dagger a", [bb, a]), "m11": Op(r"a^\dagger a", [bb, bb])}[sym]
    n = len(sym.split(" ")) if sym != r"a^\dagger a" else 1
    if sym == r"a^\dagger a":
        return Op(sym, b.dofs[0])
    return Op(sym, [b.dofs[0]] * n) if n > 1 else Op(sym, b.dofs[0])


def local_matrix(kind, i, k):
    """independent oracle: product, in the written order, of the single-symbol matrices"""
    b = basis_for(kind, i)
    sym, q = POOL[kind][k]
    if kind == "m" and sym == "I":
        return np.eye(2)
    if kind == "m":
        mat = np.zeros((2, 2))
        mat[{"m01": (0, 1), "m10": (1, 0), "m11": (1, 1)}[sym]] = 1.0
        return mat
    if sym == "I":
        return np.eye(b.nbas)
    if sym == r"a^\dagger a":
        return np.diag([0.0, 1.0])
    if kind in ("w", "v", "u", "W"):
        # oscillator product symbols denote the exact operator (documented exception at the top level): take the
        # basis' own matrix, which C16 checks against the written-order product away from the truncation edge
        return np.asarray(b.op_mat(sym), dtype=float)
    mat = np.eye(b.nbas)
    for s in sym.split(" "):
        mat = mat @ np.asarray(b.op_mat(s), dtype=float)
    return mat


def term_charge(kinds, term):
    return sum(POOL[k][t][1] for k, t in zip(kinds, term))


def all_terms(kinds):
    return [t for t in itertools.product(*[range(len(POOL[k])) for k in kinds])]


def instances(tier, seed):
    out = []
    models = [("s", "s"), ("s", "s", "s"), ("e", "e", "e"), ("s", "w", "s"), ("m", "s"), ("e", "u", "e")] if tier == "quick" else \
        [("s", "s"), ("s", "s", "s"), ("e", "e", "e"), ("s", "w", "s"), ("m", "s"), ("e", "u", "e"), ("s", "s", "s", "s"), ("e", "v", "e"), ("s", "m", "s"), ("e", "e", "e", "e")]
    algos = ["Hopcroft-Karp", "Hungarian", "qr"]
    per_model = 18 if tier == "quick" else 70     # thorough: ~2000 instances, sized for about half an hour on 16 cores

    def add(kinds, table, algo, swaps=(), offset=True, dup=False):
        out.append(dict(kinds=kinds, table=[list(t) for t in table], algo=algo, swaps=list(swaps), offset=offset,
                        label="mpo %s %s table=%s%s%s" % ("".join(kinds), algo, str([list(t) for t in table]).replace(" ", ""),
                                                         " swaps=%s" % list(swaps) if swaps else "", " +offset" if offset else ""),
                        key="mpo/%s%s" % (algo, "/swap" if swaps else "")))

    import random
    for kinds in models:
        rng = random.Random(1000 + seed)
        terms = all_terms(kinds)
        n = len(kinds)
        nz = [t for t in terms if any(t)]
        tables = []
        # all single terms of the first 12, all pairs among a strided subset, sampled triples/quads incl. duplicates
        for t in nz[:: max(1, len(nz) // (3 if tier == "quick" else 6))]:
            tables.append([t])
        sub = nz[:: max(1, len(nz) // (4 if tier == "quick" else 7))]
        for a, b in itertools.combinations(sub, 2):
            tables.append([a, b])
        while len(tables) < per_model:
            k = rng.choice([3, 3, 3, 4] if tier == "quick" else [3, 4, 5, 6])
            tb = [rng.choice(nz) for _ in range(k)]
            if rng.random() < 0.35:
                tb.append(tb[0])          # duplicate row -> factors are summed
            if rng.random() < 0.2:
                tb.append(tuple([0] * n))  # explicit constant term
            tables.append(tb)
        tables = tables[:per_model]
        for ti, tb in enumerate(tables):
            for algo in algos:
                if algo == "qr" and (len(tb) + n > 5 or len(tb) > 3):
                    continue      # pivoted-QR contract: permutation and rank are solver-chosen, the forks grow with sites x terms; beyond sites + terms = 5 the
                                  # obligations stay `unknown` or produce candidates that do not replay (both tiers use the same bound)
                add(kinds, tb, algo, offset=(ti % 2 == 0))
            # swaps on a subset
            if ti % 4 == 0 and n >= 2 and "m" not in kinds and len(tb) <= 5:
                for i in range(n - 1):
                    add(kinds, tb, "Hopcroft-Karp", swaps=[i], offset=False)
                if n >= 3 and ti % 8 == 0:
                    add(kinds, tb, "Hopcroft-Karp", swaps=[0, 1], offset=False)
                    add(kinds, tb, "Hungarian", swaps=[1, 0], offset=False)
    # long thin chains (11 / 12 sites, few terms): site indices and dof names with two digits, sweeps over more than ten cuts.  The dense operator
    # (2048 x 2048 symbolic entries) is out of reach: compared are the blocks of the operator on the sites the terms touch with the untouched
    # ("spectator") sites held in fixed basis states - all zero, all one, one spectator raised, one spectator off-diagonal (block must vanish)
    for n_long, kind in ((11, "s"), (12, "e")):
        kl = tuple([kind] * n_long)
        L = n_long - 1
        if kind == "s":
            tbs = [{0: 1, L: 2}, {9: 3, L: 1}], [{1: 2, 2: 1, L: 4}, {2: 1, L: 4}, {1: 2}], [{9: 1, L: 1}, {2: 2, 9: 1}, {2: 2, L: 1}, {}], [{L: 3}, {0: 3}, {L: 3}]
        else:
            tbs = [{0: 1, L: 2}, {9: 1, L: 2}], [{1: 3, 2: 1, L: 2}, {2: 1, L: 2}, {1: 3}], [{9: 3, L: 3}, {2: 3, 9: 3}, {2: 3, L: 3}, {}], [{L: 3}, {0: 3}, {L: 3}]
        for ti, tb in enumerate(tbs):
            table = [tuple(t.get(i, 0) for i in range(n_long)) for t in tb]
            for algo in ("Hopcroft-Karp", "Hungarian"):
                out.append(dict(kinds=kl, table=[list(t) for t in table], algo=algo, swaps=[], offset=(ti % 2 == 0), long=True,
                                label="mpo long chain %s x%d %s terms=%s%s" % (kind, n_long, algo, str(tb).replace(" ", ""), " +offset" if ti % 2 == 0 else ""),
                                key="mpo/%s/long" % algo))
    # float build: complex coefficients with duplicate rows / an explicit identity next to an offset (the merged table goes through dtype-sensitive buffers)
    for kinds in (("s", "s", "s"), ("s", "w", "s")):
        nz = [t for t in all_terms(kinds) if any(t)]
        n = len(kinds)
        for tb in ([nz[1], nz[5], nz[1]], [nz[2], nz[2], nz[7], tuple([0] * n)], [nz[3], nz[4], nz[3], nz[4], nz[9]]):
            for algo in algos:
                out.append(dict(kinds=kinds, table=[list(t) for t in tb], algo=algo, swaps=[], offset=True, cplx_factors=True, concrete=True,
                                label="[float build] mpo %s %s complex factors, duplicate rows table=%s" % ("".join(kinds), algo, str([list(t) for t in tb]).replace(" ", "")),
                                key="mpo/%s/floatbuild-complex" % algo))
    return out


# ---------------------------------------------------------------------------------------------
class SparseProxy:
    """stands in for scipy.sparse inside symbolic_mpo: results of coo/csr constructors learn to handle object data"""

    def __init__(self, real):
        self._real = real

    def __getattr__(self, item):
        return getattr(self._real, item)

    def csr_matrix(self, *a, **k):
        return _wrap(self._real.csr_matrix(*a, **k))

    def coo_matrix(self, *a, **k):
        return _CooWrap(self._real.coo_matrix(*a, **k))


class _CooWrap:
    def __init__(self, m):
        self._m = m

    def tocsr(self):
        return _wrap(self._m.tocsr())

    def __getattr__(self, item):
        return getattr(self._m, item)


def _wrap(csr):
    import scipy.sparse

    class SymCSR(scipy.sparse.csr_matrix):
        def dot(self, other):
            o = np.asarray(other)
            if o.dtype == object:
                return np.asarray(scipy.sparse.csr_matrix(self).toarray()).astype(object).dot(o)
            return scipy.sparse.csr_matrix.dot(self, other)

        def todense(self, *a, **k):
            if np.asarray(self.data).dtype == object:
                out = np.empty(self.shape, dtype=object)
                out[...] = 0
                for i in range(self.shape[0]):
                    for jj in range(self.indptr[i], self.indptr[i + 1]):
                        out[i, self.indices[jj]] = self.data[jj]
                return out
            return np.asarray(scipy.sparse.csr_matrix.todense(self, *a, **k))
    return SymCSR(csr)


class PivotQR:
    """contract for scipy.linalg.qr(gamma, mode='economic', pivoting=True) on symbolic gamma"""

    def __init__(self, ctx, real):
        self.ctx = ctx
        self._real = real

    def __getattr__(self, item):
        return getattr(self._real, item)

    def qr(self, a, mode="full", pivoting=False, **kw):
        from symnum import sym as S, expr as X, stubs
        a = np.asarray(a)
        if a.dtype != object or not S.has_sym(a):
            return self._real.qr(np.asarray(a, dtype=float), mode=mode, pivoting=pivoting, **kw)
        assert mode == "economic" and pivoting
        ctx = self.ctx
        ex = ctx.explorer
        m, n = a.shape
        k = min(m, n)
        # permutation: symbolic, concretised exhaustively
        p = []
        for j in range(n):
            pj = S.Sym.I(stubs.fresh_name("piv"))
            ex.assume(X.band(X.le(X.const(0, "I"), pj.re), X.le(pj.re, X.const(n - 1, "I"))), "pivot range")
            for q0 in p:
                ex.assume(X.bnot(X.eq(pj.re, X.const(q0, "I"))), "pivot distinct")
            p.append(ex.concretize(pj, 0, n - 1))
        rk = S.Sym.I(stubs.fresh_name("rank"))
        ex.assume(X.band(X.le(X.const(1, "I"), rk.re), X.le(rk.re, X.const(k, "I"))), "rank range")
        r_ = ex.concretize(rk, 1, k)
        q = S.sym_array(stubs.fresh_name("Q"), (m, k), "real")
        rr = S.sym_array(stubs.fresh_name("R"), (k, n), "real")
        r = np.empty((k, n), dtype=object)
        for i in range(k):
            for j in range(n):
                r[i, j] = rr[i, j] if (j >= i and i < r_) else S.Sym(X.ZERO)
        ap = a[:, p]
        prod = q.dot(r)
        for x, y in zip(prod.flat, ap.flat):
            ex.assume(S._lift(x).eq_b(S._lift(y)), "qr: A[:,p] = QR")
        g = q.T.dot(q)
        for i in range(k):
            for j in range(k):
                ex.assume(S._lift(g[i, j]).eq_b(S._lift(1 if i == j else 0)), "qr: QtQ = I")
        # the code's own rank test must come out as rank r_: written with the very expressions the code will form
        rtol = 1e-10
        for i in range(k):
            cond = abs(r[i, i]) > abs(r[0][0]) * rtol
            if i < r_:
                ctx.assume(cond, "qr: |r_ii| above the relative tolerance for i < rank")
            else:
                ctx.assume(ctx.neg(cond) if not isinstance(cond, bool) else (not cond), "qr: r_ii = 0 for i >= rank")
        # no entry of Q/R sits in the float-tolerance band (0, atol]: either exactly zero or clearly above
        for x in list(q.flat):
            big = abs(x) > 1e-10
            ctx.assume(ctx.any([big, x == 0]), "qr: no entry in the tolerance band")
        for i in range(r_):
            for j in range(n):
                x = r[i, j]
                if isinstance(x, S.Sym) and not x.is_const:
                    big = abs(x) > abs(r[0][0]) * rtol
                    ctx.assume(ctx.any([big, x == 0]), "qr: no entry in the tolerance band")
        return q.view(S.SymArray), r.view(S.SymArray), np.array(p)


def make_harness(P):
    kinds = tuple(P["kinds"])

    def h(ctx):
        from renormalizer.model import Model, Op
        from renormalizer.mps import Mpo
        from renormalizer.mps import symbolic_mpo as sm
        from renormalizer.utils import Quantity
        n = len(kinds)
        basis = [basis_for(k, i) for i, k in enumerate(kinds)]
        model = Model(basis, [])
        table = [tuple(t) for t in P["table"]]
        fs = [ctx.real("f%d" % j, [1.3, -0.7, 0.45, 2.1, -1.9, 0.8, 1.1][j % 7]) for j in range(len(table))]
        if P.get("cplx_factors"):
            # float build only: complex coefficients (what the operator's dtype becomes is a dtype question the object backend cannot represent)
            fs = [complex(f, [0.6, -1.5, 0.25, 0.9, -0.4, 1.2, -0.8][j % 7]) for j, f in enumerate(fs)]
        off = ctx.real("offset", 0.37) if P["offset"] else 0.0
        # magnitude assumptions: the deduplication drops terms below 1e-15 * max|f|; exactness is claimed when every
        # merged factor is exactly zero or clearly above that band
        groups = {}
        for j, t in enumerate(table):
            groups.setdefault(t, []).append(j)
        if ctx.symbolic:
            for f in fs + ([off] if P["offset"] else []):
                ctx.assume(ctx.all([ctx.le(abs(f), 4)]), "|f| <= 4")
            for f in fs:
                # individual factors are non-zero (zero-factor terms are discarded up front by check_operator_terms);
                # cancellation is still possible between duplicate rows and with the offset
                ctx.assume(abs(f) > 1e-9, "|f| > 1e-9")
            ident = tuple([0] * n)
            for t, js in groups.items():
                s = sum((fs[j] for j in js), 0)
                if t == ident and P["offset"]:
                    s = s - off
                ctx.assume(ctx.any([s == 0, abs(s) > 1e-9]), "merged factor is zero or above 1e-9")
            if P["offset"] and ident not in groups:
                ctx.assume(ctx.any([off == 0, abs(off) > 1e-9]), "offset zero or above 1e-9")
        terms = []
        for j, t in enumerate(table):
            ops = [site_op(kinds[i], i, k) for i, k in enumerate(t) if k != 0]
            if not ops:
                ops = [Op("I", basis[0].dofs[0])]
            terms.append(Op.product(ops) * fs[j] if len(ops) > 1 else ops[0] * fs[j])
        saved = (sm.scipy,)
        real_dqr = sm._decompose_qr

        def dqr_wrapper(term_row, term_col, non_red, in_ops_list, factor, primary_ops, algo, k=1):
            # call-through; for the single-column branch (no LAPACK call to hang the contract on) state the same
            # "no entry in the tolerance band" assumption on the bare factors that the code filters
            if ctx.symbolic and len(term_col) == 1:
                fac = np.asarray(factor, dtype=object)
                mx = np.max(np.abs(fac))
                for f in fac:
                    ctx.assume(ctx.any([abs(f) > 1e-10 * mx, f == 0]), "qr(single column): no factor in the tolerance band")
            return real_dqr(term_row, term_col, non_red, in_ops_list, factor, primary_ops, algo, k)
        sm._decompose_qr = dqr_wrapper
        undo_qr = None
        if ctx.symbolic:
            import scipy as real_scipy

            class ScipyP:
                sparse = SparseProxy(real_scipy.sparse)
                linalg = PivotQR(ctx, real_scipy.linalg)

                def __getattr__(self, item):
                    return getattr(real_scipy, item)
            sm.scipy = ScipyP()
        try:
            try:
                mpo = Mpo(model, terms, offset=Quantity(off), algo=P["algo"])
            except ValueError as e:
                if "Terms all have factor 0" in str(e) or "Terms contain nothing" in str(e):
                    return
                if "cannot infer dimensions from zero sized index arrays" in str(e):
                    # every merged factor cancelled: the operator is identically zero, which the constructor rejects
                    # (with SciPy's message).  Must not happen for a non-zero operator:
                    ident = tuple([0] * n)
                    sums = []
                    for t, js in groups.items():
                        sm_ = sum((fs[j] for j in js), 0)
                        if t == ident and P["offset"]:
                            sm_ = sm_ - off
                        sums.append(sm_)
                    if P["offset"] and ident not in groups:
                        sums.append(off)
                    ctx.check("construction is rejected only for the identically-zero operator", ctx.all([ctx.eq(x, 0) for x in sums]))
                    return
                raise
            if P.get("long"):
                _long_blocks(ctx, mpo, kinds, table, fs, off, P, n)
                return
            # ---- oracle
            dims = [b.nbas for b in basis]
            D = int(np.prod(dims))
            ref = np.zeros((D, D), dtype=object if ctx.symbolic else (complex if P.get("cplx_factors") else float))
            for j, t in enumerate(table):
                mat = np.ones((1, 1))
                for i, k in enumerate(t):
                    mat = np.kron(mat, local_matrix(kinds[i], i, k))
                ref = ref + mat * fs[j]
            ref = ref - np.eye(D) * off
            dense = mpo.todense()
            ctx.check("todense equals the sum of tensor products minus the offset", ctx.eq(dense, ref))
            ctx.check("own contraction equals the sum of tensor products", ctx.eq(lib.dense_op(lib.tensors(mpo)), ref))
            charges = set(term_charge(kinds, t) for t in table)
            if P["offset"]:
                charges.add(0)
            if len(charges) == 1:
                ctx.check("labels describe the blocks of every site tensor (invariant)", lib.inv_relation(ctx, mpo))
                ctx.check("total charge of the operator", lib.ctx_eq_labels(ctx, mpo.qntot, [charges.pop()]))
            if P["algo"] != "qr":
                ctx.check("bond dimensions equal the maximum matching of each cut (minimum vertex cover)", _bonds_minimal(ctx, mpo, table, fs, off, P, n))
            # ---- swaps
            cur_basis = list(basis)
            perm = list(range(n))
            for si in P["swaps"]:
                nb = list(cur_basis)
                nb[si], nb[si + 1] = nb[si + 1], nb[si]
                new_model = Model(nb, [])
                mpo.try_swap_site(new_model, swap_jw=False, algo=P["algo"])
                cur_basis = nb
                perm[si], perm[si + 1] = perm[si + 1], perm[si]
                refp = _permute_dense(ref, dims, perm)
                ctx.check("after swapping adjacent sites: same operator in the new site order", ctx.eq(mpo.todense(), refp))
                if len(charges) <= 1:
                    ctx.check("after swap: labels valid", lib.inv_relation(ctx, mpo))
        finally:
            sm.scipy = saved[0]
            sm._decompose_qr = real_dqr
    return h


def _block(mats, active, spect):
    """block of the operator sum-of-products given per-site 4-leg tensors (l, up, down, r): spectator site i is held at <x_i| . |y_i>, active sites stay open"""
    cur = np.ones((1, 1), dtype=object)          # (open legs flattened, bond)
    shape = []
    for i, m in enumerate(mats):
        m = np.asarray(m)
        if i in active:
            d = m.shape[1]
            cur = np.tensordot(cur, m, axes=(1, 0))          # (open, up, down, r)
            cur = cur.reshape(-1, m.shape[3])
            shape += [d, d]
        else:
            x, y = spect[i]
            cur = cur.dot(m[:, x, y, :])
    na = len(active)
    t = cur.reshape(shape)
    t = t.transpose([2 * k for k in range(na)] + [2 * k + 1 for k in range(na)])
    D = int(np.prod(shape[::2])) if shape else 1
    return t.reshape(D, D)


def _long_blocks(ctx, mpo, kinds, table, fs, off, P, n):
    active = sorted(set(i for t in table for i, k in enumerate(t) if k != 0))
    spectators = [i for i in range(n) if i not in active]
    configs = [dict((i, (0, 0)) for i in spectators), dict((i, (1, 1)) for i in spectators)]
    for s_ in spectators:
        c = dict((i, (0, 0)) for i in spectators)
        c[s_] = (1, 1)
        configs.append(c)
        c = dict((i, (0, 0)) for i in spectators)
        c[s_] = (0, 1)
        configs.append(c)
    got_all, ref_all = [], []
    tens = lib.tensors(mpo)
    for c in configs:
        got_all.append(_block(tens, active, c))
        ref = 0
        for j, t in enumerate(table):
            mats = [np.asarray(local_matrix(kinds[i], i, k), dtype=object).reshape(1, *np.shape(local_matrix(kinds[i], i, k)), 1) for i, k in enumerate(t)]
            ref = ref + _block(mats, active, c) * fs[j]
        ident = [np.eye(2, dtype=object).reshape(1, 2, 2, 1)] * n
        ref = ref - _block(ident, active, c) * off
        ref_all.append(ref)
    ctx.check("long chain: every block (spectator sites held in basis states) equals the sum of tensor products minus the offset",
              ctx.all([ctx.eq(g, r) for g, r in zip(got_all, ref_all)]))
    charges = set(term_charge(kinds, t) for t in table)
    if P["offset"]:
        charges.add(0)
    if len(charges) == 1:
        ctx.check("labels describe the blocks of every site tensor (invariant)", lib.inv_relation(ctx, mpo))
        ctx.check("total charge of the operator", lib.ctx_eq_labels(ctx, mpo.qntot, [charges.pop()]))
    ctx.check("bond dimensions equal the maximum matching of each cut (minimum vertex cover)", _bonds_minimal(ctx, mpo, table, fs, off, P, n))


def _permute_dense(ref, dims, perm):
    n = len(dims)
    t = ref.reshape(list(dims) + list(dims))
    t = t.transpose(list(perm) + [n + p for p in perm])
    D = int(np.prod(dims))
    return t.reshape(D, D)


def _bonds_minimal(ctx, mpo, table, fs, off, P, n):
    """bond dimension at each cut = size of a maximum matching of the bipartite graph (distinct left parts) x (distinct
    right parts) with an edge per surviving merged term - computed independently on the *structure*.  The structure of the
    surviving terms depends on which merged factors vanish: evaluated on the current path."""
    from symnum import sym as S
    ident = tuple([0] * n)
    merged = {}
    for j, t in enumerate(table):
        merged[t] = merged.get(t, 0) + fs[j]
    if P["offset"]:
        merged[ident] = merged.get(ident, 0) - off
    alive = []
    for t, s in merged.items():
        z = (s == 0)
        if bool(z):   # decided on this path (forks if still open)
            continue
        alive.append(t)
    if not alive:
        return True
    ok = True
    bd = mpo.bond_dims
    for cut in range(1, n):
        lefts = sorted(set(t[:cut] for t in alive))
        rights = sorted(set(t[cut:] for t in alive))
        adj = [[rights.index(t[cut:]) for t in alive if t[:cut] == l] for l in lefts]
        from checks.c20 import max_matching_size
        mm = max_matching_size(len(lefts), len(rights), adj)
        ok = ok and bd[cut] == mm and bd[cut] <= min(len(lefts), len(rights))
    return ok


def main(tier, seed):
    from renormalizer.mps import symbolic_mpo as sm, mpo as mpomod
    from renormalizer.model import op as opmod, model as modelmod
    return common.run_check(
        PROP, "checks.c01", tier, seed,
        explanation="The real MPO construction pipeline with every term factor and the offset symbolic. Enumerated: models of 2-3 (thorough 4) sites over half-spin, simple "
                    "electron, harmonic oscillator (plain and shifted origin), two-DoF multi-electron sites; term tables = all single terms and pairs over a strided subset plus "
                    "seeded tables of 3-5 (6) terms with duplicate rows, repeated symbols on a site and explicit constant terms; all three algorithms (QR for tables of <= 3 "
                    "terms, LAPACK's pivoted QR by contract with the permutation and the rank as solver-chosen integers); single adjacent swaps at every position and two-swap "
                    "sequences. Obligations: dense operator identity for all factors, label invariant, total charge, bond dimension = maximum matching at every cut. Long thin chains "
                    "(11 half-spin / 12 electron sites, 2-4 terms touching sites 0-2 and 9-11, both graph algorithms): every block of the operator on the touched sites with the "
                    "untouched sites held in basis states (all 0, all 1, one raised, one off-diagonal) instead of the full dense matrix.",
        assumptions=["merged factors are exactly zero or above 1e-9 in magnitude (the code drops terms below 1e-15*max|f|; that band is a float-tolerance matter)",
                     "|f| <= 4", "pivoted QR by contract; entries of Q/R are exactly zero or above the code's 1e-10 tolerances (band excluded)",
                     "real factors and real local matrices in quick tier (terms whose local matrix is complex need a complex factor - the code raises a casting error otherwise)",
                     "table structure and model are enumerated, not symbolic (NumPy cannot run np.unique on symbolic integers)"],
        trusted_base=["z3 5.1", "NumPy object loops", "np.unique / scipy.sparse structure handling on concrete integer tables", "basis.op_mat for single symbols (checked in C16)"],
        functions=[sm.construct_symbolic_mpo, sm._construct_symbolic_mpo, sm._construct_symbolic_mpo_one_site, sm._decompose_graph, sm._decompose_qr, sm._compute_qn,
                   sm._terms_to_table, sm._deduplicate_table, sm.compose_symbolic_mo, sm.symbolic_mo_to_numeric_mo, sm.swap_site, sm.check_swap_consistency,
                   mpomod.Mpo.__init__, mpomod.Mpo.todense, mpomod.Mpo.try_swap_site, opmod.Op.split_elementary, modelmod.Model.check_operator_terms])


if __name__ == "__main__":
    import argparse
    ap = argparse.ArgumentParser()
    ap.add_argument("--tier", default=os.environ.get("VERIF_TIER", "quick"))
    a = ap.parse_args()
    sys.exit(main(a.tier, int(os.environ.get("VERIF_SEED", "0"))))
