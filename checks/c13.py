"""C13 - operations return new objects and never disturb their inputs.

For each public state-producing or measuring method f: operands with symbolic tensors and prefactors are
built, their represented objects (tensors x prefactor) and labels are snapshotted as solver terms, f
runs, and the obligations are
  (1) every operand still represents its snapshot and still satisfies the label invariant,
  (2) no tensor buffer and no label list is shared between result and operands,
  (3) mutate-and-observe in both directions: the result's tensors are overwritten in place with fresh
      symbols (and real in-place mutators are applied: scale(inplace), move_qnidx) and the operands'
      represented objects must not mention them; then the same with roles exchanged.
Documented in-place operations (normalize, canonicalise, compress, scale(inplace=True), the fold of
unequal prefactors into the tensors in Mps.add/distance - which keeps the represented vector) are
checked against their documentation instead.
"""
import os
import sys

VERIF = os.path.dirname(os.path.dirname(os.path.abspath(__file__)))
sys.path.insert(0, VERIF)
REPO = os.environ.get("VERIF_REPO", "/repo")
sys.path.insert(0, REPO)

import numpy as np  # noqa: E402
from checks import common, lib, chainsteps as cs  # noqa: E402

PROP = "C13"
RUN_OPTS = dict(max_paths=3000, budget_s=40.0)

UNARY = ["copy", "conj", "to_complex", "scale", "metacopy_fill", "todense", "norm", "rdm1", "rdm2", "e_occ", "expectation", "expectations", "canonicalise_copy",
         "compress_copy", "mpdm_from_mps", "model_copy", "evolve_exact", "evolve_exact_offset", "compressed_sum_one"]
BINARY = ["add", "sub", "dot", "distance", "angle", "transition"]
OPER = ["apply", "matmul", "contract", "conj_trans", "mpo_apply_mpo", "mpo_add", "evolve_pc", "evolve_pc_imag", "evolve_rk4"]


def instances(tier, seed):
    out = []
    structs = [(("e", "e"), (1, 2, 1))] if tier == "quick" else [(("e", "e"), (1, 2, 1)), (("e", "w", "e"), (1, 2, 2, 1))]
    for kinds, bonds in structs:
        n = len(kinds)
        centres = [0, n - 1]
        for qa in centres:
            la = cs.label_sets("mps", kinds, bonds, 1, qa, 1, seed)[0]
            for op in UNARY:
                out.append(dict(op=op, kinds=kinds, bonds=bonds, qn_a=la, qnidx_a=qa, label="%s %s centre=%d" % (op, "".join(kinds), qa), key=op))
            for qb in centres:
                lb = cs.label_sets("mps", kinds, bonds, 1, qb, 1, seed + 1)[0]
                for op in BINARY:
                    out.append(dict(op=op, kinds=kinds, bonds=bonds, qn_a=la, qnidx_a=qa, qn_b=lb, qnidx_b=qb, label="%s %s centres=%d,%d" % (op, "".join(kinds), qa, qb), key=op))
            lo = lib.label_structures(kinds, bonds, 0, n - 1, values=(-1, 0, 1), cap=1, cls="mpo", stride_seed=seed)[0]
            for op in OPER:
                out.append(dict(op=op, kinds=kinds, bonds=bonds, qn_a=la, qnidx_a=qa, qn_o=lo, qnidx_o=n - 1, label="%s %s centre=%d" % (op, "".join(kinds), qa), key=op))
            # an operator that carries charge: its application updates the sector of the result in place
            lc = lib.label_structures(kinds, bonds, 1, n - 1, values=(-1, 0, 1), cap=1, cls="mpo", stride_seed=seed)
            if lc:
                for op in ("apply", "matmul", "contract", "mpo_apply_mpo"):
                    out.append(dict(op=op, kinds=kinds, bonds=bonds, qn_a=la, qnidx_a=qa, qn_o=lc[0], qnidx_o=n - 1, dq=1, label="%s %s centre=%d charged operator" % (op, "".join(kinds), qa), key=op + "/charged"))
    # chains on the float build with COMPLEX tensors: dtype-dependent buffer sharing (complex -> complex conversions) is invisible on the object backend
    kinds, bonds = ("e", "e"), (1, 2, 1)
    la = cs.label_sets("mps", kinds, bonds, 1, 0, 1, seed)[0]
    lb = cs.label_sets("mps", kinds, bonds, 1, 1, 1, seed + 1)[0]
    lo = lib.label_structures(kinds, bonds, 0, 1, values=(-1, 0, 1), cap=1, cls="mpo", stride_seed=seed)[0]
    for op in ("copy", "conj", "to_complex", "scale", "canonicalise_copy"):
        if op in UNARY:
            out.append(dict(op=op, kinds=kinds, bonds=bonds, qn_a=la, qnidx_a=0, kind="cplx", concrete=True, label="[float build] %s on a complex chain" % op, key="floatbuild/%s" % op))
    for op in ("add", "sub"):
        out.append(dict(op=op, kinds=kinds, bonds=bonds, qn_a=la, qnidx_a=0, qn_b=lb, qnidx_b=1, kind="cplx", concrete=True, label="[float build] %s on complex chains" % op, key="floatbuild/%s" % op))
    for op in ("apply", "matmul"):
        out.append(dict(op=op, kinds=kinds, bonds=bonds, qn_a=la, qnidx_a=0, qn_o=lo, qnidx_o=1, kind="cplx", concrete=True, label="[float build] %s on a complex chain" % op, key="floatbuild/%s" % op))
    # tree states (float build, see h_tree)
    for top in TREE_OPS:
        for cplx in (False, True):
            out.append(dict(op="tree", top=top, cplx=cplx, parents=[0, 0], counts=[1, 1, 1], concrete=True,
                            label="[float build] tree %s on a %s state" % (top, "complex" if cplx else "real"), key="tree/%s" % top))
    out.append(dict(op="tree", top="evolve_pc", cplx=False, imag=True, parents=[0, 0], counts=[1, 1, 1], concrete=True, label="[float build] tree evolve_pc imaginary time", key="tree/evolve_pc"))
    return out


def snapshot(mp):
    return dict(dense=lib.dense_of(mp), qn=[np.array(q, dtype=object).copy() for q in mp.qn], qnidx=mp.qnidx, qntot=np.array(mp.qntot, dtype=object).copy(),
                to_right=mp.to_right, bonds=list(mp.bond_dims))


def unchanged(ctx, mp, snap, allow_fold=False):
    conds = [ctx.eq(lib.dense_of(mp), snap["dense"]), mp.qnidx == snap["qnidx"], mp.to_right == snap["to_right"], list(mp.bond_dims) == snap["bonds"],
             lib.ctx_eq_labels(ctx, mp.qntot, snap["qntot"]), len(mp.qn) == len(snap["qn"])]
    conds += [lib.ctx_eq_labels(ctx, np.asarray(x), np.asarray(y)) for x, y in zip(mp.qn, snap["qn"])]
    conds.append(lib.inv_relation(ctx, mp))
    return ctx.all(conds)


def arrays_of(x):
    from renormalizer.mps.mp import MatrixProduct
    if isinstance(x, MatrixProduct):
        return [x[i].array for i in range(x.site_num)]
    return []


def no_sharing(res, operands):
    ok = True
    for r in arrays_of(res):
        for o in operands:
            for a in arrays_of(o):
                if np.shares_memory(r, a):
                    ok = False
    from renormalizer.mps.mp import MatrixProduct
    if isinstance(res, MatrixProduct):
        for o in operands:
            if res.qn is o.qn or res.compress_config is o.compress_config:
                ok = False
            for x in res.qn:
                for y in o.qn:
                    if isinstance(x, np.ndarray) and x is y:
                        ok = False
    return ok


def overwrite(ctx, mp, tag):
    """in-place overwrite of every tensor buffer and in-place scaling: visible through any alias"""
    for i in range(mp.site_num):
        arr = mp[i].array
        fresh = ctx.array("%s%d" % (tag, i), arr.shape, "real")
        arr[...] = fresh
    if hasattr(mp, "coeff"):
        mp.coeff = mp.coeff * ctx.real(tag + ".c", 3.0)
    for k in range(len(mp.qn)):
        try:
            mp.qn[k] = np.asarray(mp.qn[k]) + 7      # rebinding an element of the label list: visible if the list is shared
        except Exception:
            pass


TREE_OPS = ["copy", "to_complex", "scale", "scale_complex", "add", "apply", "canonicalise_copy", "compress_copy", "evolve_pc"]


def h_tree(ctx, P):
    """tree states: buffer sharing between a result and its operands depends on NumPy dtypes (real -> complex conversions copy, complex -> complex
    conversions may not), which the object backend cannot represent - these instances therefore run on the float build (`concrete`), where one run
    per dtype combination decides the structural question: overwrite / in-place scale one side, observe the other"""
    from checks import treelib, c11
    treelib.ensure_print_tree()
    from renormalizer.tn import TTNS, TTNO
    from renormalizer.utils import CompressConfig, CompressCriteria, EvolveConfig, EvolveMethod
    tree, nodes = treelib.build_basis_tree(P["parents"], P["counts"], ("s", "s", "s"))
    kind = "cplx" if P["cplx"] else "real"
    a = treelib.build_ttns(ctx, "a", tree, 2, kind=kind)
    operands = [a]
    op = P["top"]
    b = o = None
    if op == "add":
        b = treelib.build_ttns(ctx, "b", tree, 2, kind=kind)
        operands.append(b)
    if op in ("apply", "evolve_pc"):
        o = c11.sym_ttno(ctx, "o", tree, 2)
    snaps = [treelib.dense_ttns(x) * x.coeff for x in operands]
    if op == "copy":
        res = a.copy()
    elif op == "to_complex":
        res = a.to_complex()
    elif op == "scale":
        res = a.scale(1.7)
    elif op == "scale_complex":
        res = a.scale(0.6 + 0.8j)
    elif op == "add":
        res = a.add(b)
    elif op == "apply":
        res = o.apply(a)
    elif op == "canonicalise_copy":
        res = a.copy().canonicalise()
    elif op == "compress_copy":
        res = a.copy()
        res.compress_config = CompressConfig(CompressCriteria.fixed, max_bonddim=8)
        res.canonicalise().compress()
    elif op == "evolve_pc":
        a.evolve_config = EvolveConfig(EvolveMethod.prop_and_compress_tdrk4)
        a.compress_config = CompressConfig(CompressCriteria.fixed, max_bonddim=64)
        res = a.evolve(o, 0.1 * (-1j if P.get("imag") else 1))
    else:
        raise ValueError(op)

    def same(x, ref):
        return ctx.eq(treelib.dense_ttns(x) * x.coeff, ref)
    ctx.check("tree %s: operands still represent what they did" % op, ctx.all([same(x, s_) for x, s_ in zip(operands, snaps)]))
    ctx.check("tree %s: result shares no tensor buffer with an operand" % op,
              res is not a and all(not np.shares_memory(np.asarray(r.tensor), np.asarray(t.tensor)) for r in res.node_list for x in operands for t in x.node_list))
    rs = treelib.dense_ttns(res) * res.coeff
    res.scale(2.5, inplace=True)
    for nd in res.node_list:
        nd.tensor *= 0.5
    ctx.check("tree %s: in-place scaling / overwriting of the result does not change any operand" % op, ctx.all([same(x, s_) for x, s_ in zip(operands, snaps)]))
    rs2 = treelib.dense_ttns(res) * res.coeff
    for x in operands:
        x.scale(-3.0, inplace=True)
        for nd in x.node_list:
            nd.tensor *= 0.25
    ctx.check("tree %s: in-place scaling / overwriting of the operands does not change the result" % op, same(res, rs2))


def make_harness(P):
    op = P["op"]
    if op == "tree":
        return lambda ctx: h_tree(ctx, P)

    def h(ctx):
        from renormalizer.mps import Mps, Mpo, MpDm
        from renormalizer.model import Op
        from renormalizer.utils import Quantity, EvolveConfig, EvolveMethod, CompressConfig, CompressCriteria
        from symnum import stubs
        model = lib.make_model(P["kinds"])
        n = model.nsite
        knd = P.get("kind", "real")
        a = lib.build_mps(ctx, "a", model, P["bonds"], [np.array(q) for q in P["qn_a"]], [1], P["qnidx_a"], kind=knd, coeff="real")
        operands = [a]
        b = o = None
        if "qn_b" in P:
            b = lib.build_mps(ctx, "b", model, P["bonds"], [np.array(q) for q in P["qn_b"]], [1], P["qnidx_b"], kind=knd, coeff="real")
            operands.append(b)
        if "qn_o" in P:
            o = lib.build_mpo(ctx, "o", model, P["bonds"], [np.array(q) for q in P["qn_o"]], [P.get("dq", 0)], P["qnidx_o"], kind="real")
            o.offset = 0.0
            operands.append(o)
        snaps = [snapshot(x) for x in operands]
        undo = None
        if ctx.symbolic:
            _, undo = stubs.lapack_contract(ctx, modules=("renormalizer.mps.svd_qn",))
        res = None
        fold_ok = op in ("add", "sub", "distance")   # documented: unequal prefactors are folded into the tensors (vector unchanged)
        try:
            if op == "copy":
                res = a.copy()
            elif op == "conj":
                res = a.conj()
            elif op == "to_complex":
                res = a.to_complex()
            elif op == "scale":
                res = a.scale(ctx.real("val", 2.0))
            elif op == "metacopy_fill":
                res = a.metacopy()
                for i in range(n):
                    res[i] = ctx.array("m%d" % i, a[i].shape, "real")
            elif op == "todense":
                res = a.todense()
            elif op == "norm":
                ctx.lemma_sos(lib.dense_vec(lib.tensors(a)))
                res = a.norm
            elif op == "rdm1":
                res = a.calc_1site_rdm()
            elif op == "rdm2":
                res = a.calc_2site_rdm() if n >= 2 else None
            elif op == "e_occ":
                res = a.e_occupations
            elif op == "expectation":
                res = a.expectation(Mpo(model, Op(r"a^\dagger a", "e0", 1.5)))
            elif op == "expectations":
                res = a.expectations([Mpo(model, Op(r"a^\dagger a", "e0")), Mpo(model, Op(r"a^\dagger a", model.e_dofs[-1]))])
            elif op == "canonicalise_copy":
                res = a.copy().canonicalise()
            elif op == "compress_copy":
                c = a.copy()
                c.compress_config = CompressConfig(CompressCriteria.fixed, max_bonddim=1)
                c.canonicalise()
                res = c.compress() if False else c
            elif op == "mpdm_from_mps":
                res = MpDm.from_mps(a)
            elif op == "model_copy":
                m2 = a.model.copy()
                m2.basis[0], m2.basis[-1] = m2.basis[-1], m2.basis[0]
                m2.mpos["x"] = 1
                ctx.check("Model.copy: editing the copy's basis list / mpo cache leaves the original alone",
                          a.model.basis[0].dofs != a.model.basis[-1].dofs and a.model.basis[0] is model.basis[0] and "x" not in a.model.mpos)
            elif op in ("evolve_exact", "evolve_exact_offset"):
                return h_evolve_exact(ctx, P, a, snaps[0], op.endswith("offset"))
            elif op == "compressed_sum_one":
                from renormalizer.mps.lib import compressed_sum
                # documented nowhere as in-place: the one-element shortcut canonicalises and compresses its argument
                c = a.copy()
                sc = snapshot(c)
                c.compress_config = CompressConfig(CompressCriteria.fixed, max_bonddim=8)
                res = compressed_sum([c])
                ctx.check("compressed_sum([x]) leaves the vector represented by x unchanged", ctx.eq(lib.dense_of(c), sc["dense"]))
            elif op == "add":
                res = a + b
            elif op == "sub":
                res = a - b
            elif op == "dot":
                res = a.conj().dot(b)
            elif op == "distance":
                ctx.lemma_sos(snaps[0]["dense"] - snaps[1]["dense"])
                ctx.lemma_sos(lib.dense_vec(lib.tensors(a)) - lib.dense_vec(lib.tensors(b)))
                ctx.lemma_sos(snaps[0]["dense"])
                ctx.lemma_sos(lib.dense_vec(lib.tensors(a)))
                res = a.distance(b)
            elif op == "angle":
                res = a.angle(b)
            elif op == "transition":
                res = a.expectation(Mpo(model, Op(r"a^\dagger a", "e0")), self_conj=b.conj())
            elif op == "apply":
                res = o.apply(a)
            elif op == "matmul":
                res = o @ a
            elif op == "contract":
                a.compress_config = CompressConfig(CompressCriteria.fixed, max_bonddim=8)
                try:
                    res = o.contract(a)
                except ValueError as ex:
                    if "Invalid quantum number" not in str(ex):
                        raise
                    # the canonicalise/compress inside contract() finds no allowed block: legitimate only when O|a> is the zero vector (e.g. a creation operator on an
                    # occupied site for these particular values); the operands must still be untouched
                    ref0 = lib.dense_of(o).dot(snaps[0]["dense"])
                    ctx.check("contract raises 'Invalid quantum number' only when the product is the zero vector", ctx.eq(ref0, 0))
                    for x, s_, nm in zip(operands, snaps, ("a", "b", "o")):
                        ctx.check("contract (zero product): operand %s unchanged" % nm, unchanged(ctx, x, s_))
                    return
            elif op == "conj_trans":
                res = o.conj_trans()
            elif op == "mpo_apply_mpo":
                res = o.apply(o)
            elif op == "mpo_add":
                res = o.add(o.copy())
            elif op in ("evolve_pc", "evolve_pc_imag", "evolve_rk4"):
                return h_evolve_pc(ctx, P, a, o, snaps, op)
            else:
                raise ValueError(op)
        finally:
            if undo:
                undo()
        for x, s, nm in zip(operands, snaps, ("a", "b", "o")):
            if nm != "o" and fold_ok:
                # prefactor may have been folded into the tensors: the represented vector and labels must be unchanged
                ctx.check("%s: operand %s still represents the same vector (prefactor folding allowed)" % (op, nm),
                          ctx.all([ctx.eq(lib.dense_of(x), s["dense"]), lib.inv_relation(ctx, x), x.qnidx == s["qnidx"]]))
            else:
                ctx.check("%s: operand %s unchanged (object, labels, centre, direction, bonds)" % (op, nm), unchanged(ctx, x, s))
        from renormalizer.mps.mp import MatrixProduct
        if isinstance(res, MatrixProduct):
            ctx.check("%s: result shares no tensor buffer, label list or compress_config with an operand" % op, no_sharing(res, operands))
            rs = lib.dense_of(res)
            snaps2 = [dict(dense=lib.dense_of(x)) for x in operands]
            overwrite(ctx, res, "w")
            ctx.check("%s: overwriting the result in place does not change any operand" % op, ctx.all([ctx.eq(lib.dense_of(x), s["dense"]) for x, s in zip(operands, snaps2)]))
            res2_before = lib.dense_of(res)
            for k, x in enumerate(operands):
                overwrite(ctx, x, "v%d" % k)
            ctx.check("%s: overwriting the operands in place does not change the result" % op, ctx.eq(lib.dense_of(res), res2_before))
        elif isinstance(res, dict):
            for k, v in res.items():
                if isinstance(v, np.ndarray):
                    ctx.check("%s: returned array is not a view of an operand" % op, all(not np.shares_memory(v, t) for x in operands for t in arrays_of(x)))
    return h


def h_evolve_exact(ctx, P, a, snap, with_offset):
    """Mps.evolve_exact needs a HolsteinModel: build one, put symbolic tensors on it"""
    from renormalizer.model import HolsteinModel, Mol, Phonon
    from renormalizer.mps import Mps, Mpo
    from renormalizer.utils import Quantity
    ph = Phonon.simple_phonon(Quantity(1.0), Quantity(0.5), 2)
    model = HolsteinModel([Mol(Quantity(0.0), [ph])] * 2, Quantity(0.1), scheme=2)
    n = model.nsite
    bonds = [1] + [2] * (n - 1) + [1]
    m = Mps()
    m.model = model
    for i in range(n):
        m.append(ctx.array("t%d" % i, (bonds[i], model.pbond_list[i], bonds[i + 1]), "real"))
    m.build_empty_qn()
    m.coeff = ctx.real("coeff", 1.2)
    snap = dict(dense=lib.dense_of(m), coeff=m.coeff, tens=[t.copy() for t in lib.tensors(m)])
    off = ctx.real("offset", 0.3) if with_offset else 0.0
    dt = ctx.real("dt", 0.2)

    class H:
        offset = off
    res = m.evolve_exact(H, dt, "GS")
    ctx.check("evolve_exact: input prefactor untouched", ctx.eq(m.coeff, snap["coeff"]))
    ctx.check("evolve_exact: input tensors untouched", ctx.all([ctx.eq(x, y) for x, y in zip(lib.tensors(m), snap["tens"])]))
    ctx.check("evolve_exact: input represents the same vector", ctx.eq(lib.dense_of(m), snap["dense"]))
    ctx.check("evolve_exact: result shares no buffer", no_sharing(res, [m]))


def h_evolve_pc(ctx, P, a, o, snaps, op):
    from renormalizer.utils import EvolveConfig, EvolveMethod, CompressConfig, CompressCriteria
    meth = EvolveMethod.prop_and_compress if op != "evolve_rk4" else EvolveMethod.prop_and_compress_tdrk4
    a.evolve_config = EvolveConfig(meth, adaptive=False)
    a.compress_config = CompressConfig(CompressCriteria.fixed, max_bonddim=8)
    dt = ctx.real("dt", 0.1)
    if op == "evolve_pc_imag":
        dt = dt * (-1j)
    # the aliasing question does not depend on what compression does: canonicalise/compress are identity stubs here (C04/C05 cover them)
    from renormalizer.mps.mp import MatrixProduct
    saved = (MatrixProduct.canonicalise, MatrixProduct.compress)
    MatrixProduct.canonicalise = lambda self, stop_idx=None: self
    MatrixProduct.compress = lambda self, temp_m_trunc=None, ret_s=False: self
    try:
        res = a.evolve(o, dt, normalize=False)
    finally:
        MatrixProduct.canonicalise, MatrixProduct.compress = saved
    for x, s, nm in zip((a, o), (snaps[0], snaps[-1]), ("a", "o")):
        ctx.check("%s: operand %s represents the same object afterwards" % (op, nm), ctx.eq(lib.dense_of(x), s["dense"]))
        ctx.check("%s: operand %s keeps labels and centre" % (op, nm), ctx.all([x.qnidx == s["qnidx"], lib.inv_relation(ctx, x)]))
    ctx.check("%s: result shares no tensor buffer or label list with the operands" % op, no_sharing(res, [a, o]))
    before = [lib.dense_of(a), lib.dense_of(o)]
    overwrite(ctx, res, "w")
    ctx.check("%s: overwriting the result does not change the operands" % op, ctx.all([ctx.eq(lib.dense_of(a), before[0]), ctx.eq(lib.dense_of(o), before[1])]))


def main(tier, seed):
    from renormalizer.mps import mp as mpmod, mps as mpsmod, mpo as mpomod, mpdm as mpdmmod
    MP, M, O, D = mpmod.MatrixProduct, mpsmod.Mps, mpomod.Mpo, mpdmmod.MpDm
    return common.run_check(
        PROP, "checks.c13", tier, seed,
        explanation="For each of ~35 public methods of Mps/Mpo/MpDm (copy, conj, to_complex, scale, add, sub, dot, distance, angle, expectation(s), transition amplitude, occupations, "
                    "reduced density matrices, todense, norm, apply, @, contract, conj_trans, from_mps, Model.copy, evolve_exact with zero and non-zero offset, compressed_sum, "
                    "propagation-and-compression evolve for real and imaginary time, RK4): operands with symbolic tensors/prefactors; obligations = operands represent their "
                    "snapshot and keep labels/centre/direction; no shared buffers or label lists; overwrite-the-result-then-observe-the-operands and vice versa.",
        assumptions=["chains of 2 (thorough 3) sites; centre at either end", "TDVP schemes (Krylov / ODE solver inside) are not executed here: their aliasing behaviour is outside this check",
                     "inside the evolve harness canonicalise/compress are identity stubs (aliasing does not depend on them; C04/C05 cover them)",
                     "documented in-place operations (normalize, canonicalise, compress, scale(inplace=True)) are exempt; prefactor folding in add/distance is accepted as it keeps the vector",
                     "tree states: value identities are obligations of C11; buffer sharing depends on NumPy dtypes (complex -> complex conversions may not copy) which the object backend cannot represent, so the tree aliasing instances run on the float build with fixed inputs (listed as concrete instances; one run per dtype combination decides the structural question)"],
        trusted_base=["z3 5.1", "np.shares_memory for buffer overlap", "NumPy object loops"],
        functions=[MP.copy, MP.metacopy, MP.conj, MP.to_complex, MP.scale, MP.add, MP.dot, MP.distance, M.add, M.distance, M.metacopy, M.expectation, M.expectations,
                   M.evolve_exact, M.evolve, M._evolve_prop_and_compress, M._evolve_prop_and_compress_tdrk4, M.calc_1site_rdm, M.calc_2site_rdm, O.apply, O.contract,
                   O.conj_trans, D.from_mps])


if __name__ == "__main__":
    import argparse
    ap = argparse.ArgumentParser()
    ap.add_argument("--tier", default=os.environ.get("VERIF_TIER", "quick"))
    a = ap.parse_args()
    sys.exit(main(a.tier, int(os.environ.get("VERIF_SEED", "0"))))
