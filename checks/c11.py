"""C11 - tree tensor network states behave as dense vectors for every topology.

For a strided subset of all rooted trees with up to 4 (thorough 5) nodes and 0/1/2 basis sets per node
(dummy nodes included), TTNS node tensors (bond 2) and TTNO node tensors are solver variables; the real
tree code runs (LAPACK by contract) and every result is compared with an independent pairwise-einsum
contraction of the same symbolic tensors: add, scale, copy, to_complex, todense(order), TTNO.apply,
expectation (environment sweep) and the older full-contraction path, norm, canonicalise, push_cano_to_parent /
child, lossless compress, one-site / one-dof / two-site reduced density matrices, dump/load; the result does
not depend on the order in which the children of a node are listed; from_mps preserves the chain state;
product-state constructor and labels (tree form of the invariant).
"""
import itertools
import os
import sys

VERIF = os.path.dirname(os.path.dirname(os.path.abspath(__file__)))
sys.path.insert(0, VERIF)
REPO = os.environ.get("VERIF_REPO", "/repo")
sys.path.insert(0, REPO)

import numpy as np  # noqa: E402
from checks import common, lib, treelib  # noqa: E402

PROP = "C11"
RUN_OPTS = dict(max_paths=1500, budget_s=40.0)

OPS = ["add", "scale_copy", "apply", "expectation", "norm", "canonicalise", "push_child", "compress", "rdm1", "rdm2", "dumpload", "child_order"]


def instances(tier, seed):
    out = []
    kinds = ("s", "s", "s")
    nmax = 4 if tier == "quick" else 5
    structs = treelib.structures(nmax, kinds, tier, seed=seed, cap=(30 if tier == "quick" else 150))
    for si, (par, cnt) in enumerate(structs):
        for oi, op in enumerate(OPS):
            if tier == "quick" and (si + oi) % 2 == 1 and op not in ("canonicalise", "apply", "expectation"):
                continue
            if op in ("canonicalise", "push_child", "compress", "rdm2", "child_order") and len(cnt) < 2:
                continue
            if op == "compress" and (len(cnt) > (3 if tier == "thorough" else 2) or max(cnt) > 1):
                continue      # chained SVD contracts: kept to small trees (time budget)
            out.append(dict(op=op, kinds=kinds, parents=list(par), counts=list(cnt), label="%s parents=%s counts=%s" % (op, list(par), list(cnt)), key=op))
    # long thin trees (11 half-spin sets, bond dimension 1): node and basis indices with two digits
    long_shapes = {"chain": ([i for i in range(10)], [1] * 11), "binary": ([(i - 1) // 2 for i in range(1, 11)], [1] * 11),
                   "comb": ([0, 0, 2, 2, 4, 4, 6, 6, 8, 8, 10, 10], [0, 1, 0, 1, 1, 1, 1, 1, 1, 1, 1, 1, 1])}
    for sname, (par, cnt) in long_shapes.items():
        for op in ("add", "scale_copy", "canonicalise", "norm", "rdm1", "dumpload", "child_order", "push_child"):
            if op == "child_order" and sname != "comb":
                continue      # chain: nothing to reorder; binary tree: the reordered expectation value stays undecided within the budget
            out.append(dict(op=op, kinds=tuple(["s"] * 11), parents=list(par), counts=list(cnt), bond=1, label="%s long %s tree (11 spins, %d nodes)" % (op, sname, len(cnt)), key=op + "/long"))
    for n in (2, 3):
        out.append(dict(op="from_mps", n=n, label="from_mps n=%d" % n, key="from_mps"))
    for kinds2, par, cnt in [(("e", "e", "e"), (0, 0), (1, 1, 1)), (("e", "e", "e"), (0, 1), (1, 1, 1)), (("e", "w", "e"), (0, 0, 1), (0, 1, 1, 1))]:
        for occ in itertools.product((0, 1), repeat=3):
            out.append(dict(op="product", kinds=kinds2, parents=list(par), counts=list(cnt), occ=list(occ), label="product state %s parents=%s occ=%s" % ("".join(kinds2), list(par), list(occ)),
                            key="product"))
    # complex states: the bra must be conjugated on EVERY node of the path between two sites (non-neighbouring pairs included)
    cplx = [((0, 1), (1, 1, 1)), ((0, 0), (1, 1, 1))]
    if tier == "thorough":
        cplx += [((0, 1, 2), (1, 1, 0, 1)), ((0, 0, 1), (1, 0, 1, 1))]
    for par, cnt in cplx:
        for op in ("rdm2", "rdm1"):
            out.append(dict(op=op, kinds=kinds, parents=list(par), counts=list(cnt), cplx=True, bond=(2 if tier == "thorough" else 2), run_opts=dict(budget_s=120.0),
                            label="%s complex state parents=%s counts=%s" % (op, list(par), list(cnt)), key="%s/complex" % op))
    # labelled trees (one label component = electron number): block-wise decompositions, additions and operator application in a sector
    lab = [(("e", "e", "e"), (0, 0), (1, 1, 1)), (("e", "e", "e"), (0, 1), (1, 1, 1)), (("e", "e", "e"), (0, 0, 0), (0, 1, 1, 1)), (("e", "e", "e"), (0,), (2, 1)),
           (("e", "w", "e"), (0, 0), (1, 1, 1))]
    if tier == "thorough":
        lab += [(("e", "e", "e", "e"), (0, 0, 1), (1, 1, 1, 1)), (("e", "e", "e", "e"), (0, 0, 0), (1, 1, 1, 1)), (("e", "e", "e"), (0, 1, 2), (0, 1, 1, 1))]
    for kinds2, par, cnt in lab:
        ne = sum(1 for k in kinds2 if k == "e")
        for qntot in range(1, ne):
            for dup in ((1, 2) if ((tier == "thorough" and ne == 3) or (qntot == 1 and len(cnt) == 3)) else (1,)):
                for sub in ("add", "canonicalise", "push_child", "compress", "apply", "expectation"):
                    if sub == "compress" and dup == 2 and tier == "quick":
                        continue
                    if ne == 4 and sub in ("apply", "compress"):
                        continue      # four electron sites: operator-times-state bonds / chained SVD contracts beyond the budget (outside the bound)
                    out.append(dict(op="labelled", sub=sub, kinds=kinds2, parents=list(par), counts=list(cnt), qntot=qntot, dup=dup,
                                    label="labelled %s %s parents=%s counts=%s sector %d dup %d" % (sub, "".join(kinds2), list(par), list(cnt), qntot, dup), key="labelled/%s" % sub))
    return out


def sym_ttno(ctx, name, tree, bond):
    from renormalizer.tn import TTNO
    from renormalizer.tn.node import TreeNodeTensor, copy_connection
    nodes = []
    for i, bn in enumerate(tree.node_list):
        shape = [bond] * len(bn.children)
        for b in bn.basis_sets:
            shape += [b.nbas, b.nbas]
        shape += [bond if bn.parent is not None else 1]
        nodes.append(TreeNodeTensor(ctx.array("%s%d" % (name, i), tuple(shape), "real"), np.zeros((shape[-1], tree.qn_size), dtype=int)))
    root = copy_connection(tree.node_list, nodes)
    return TTNO(tree, [], root=root)


def tree_inv(ctx, ttns):
    """tree form of the label invariant: non-zero entry => children labels + physical labels = label towards the parent"""
    conds = []
    for node in ttns.node_list:
        t = np.asarray(node.tensor)
        bn = ttns.tn2bn[node]
        nch = len(node.children)
        for idx in np.ndindex(*t.shape):
            v = t[idx]
            zero = ctx.eq(v, 0)
            if ctx.symbolic and getattr(zero, "op", "") == "true":
                continue
            if (not ctx.symbolic) and abs(v) < 1e-12:
                continue
            tot = np.zeros(ttns.basis.qn_size, dtype=int)
            for c in range(nch):
                tot = tot + np.asarray(node.children[c].qn)[idx[c]]
            for j, b in enumerate(bn.basis_sets):
                tot = tot + np.asarray(b.sigmaqn)[idx[nch + j]]
            ok = bool(np.all(tot == np.asarray(node.qn)[idx[-1]]))
            conds.append(ctx.any([zero, ok]))
    return ctx.all(conds)


def make_harness(P):
    op = P["op"]

    def h(ctx):
        treelib.ensure_print_tree()
        from renormalizer.tn import TTNS, TTNO, BasisTree
        from renormalizer.tn import tree as trmod
        from renormalizer.model.basis import BasisDummy
        from symnum import stubs
        if op == "from_mps":
            return h_from_mps(ctx, P)
        tree, nodes = treelib.build_basis_tree(P["parents"], P["counts"], tuple(P["kinds"]))
        if op == "labelled":
            return h_labelled(ctx, P)
        if op == "product":
            bl = treelib.nondummy_basis(tree)
            cond = {b.dofs[0]: o for b, o in zip(bl, P["occ"]) if o and b.is_electron}
            s = TTNS(tree, cond)
            ctx.check("product state: labels describe the tensors (tree invariant)", tree_inv(ctx, s))
            exp_q = sum(np.asarray(b.sigmaqn)[cond.get(b.dofs[0], 0)] for b in bl)
            ctx.check("product state: total quantum number", lib.ctx_eq_labels(ctx, s.qntot, exp_q))
            v = treelib.dense_ttns(s)
            ref = np.ones(1)
            for b in bl:
                e = np.zeros(b.nbas)
                e[cond.get(b.dofs[0], 0)] = 1
                ref = np.kron(ref, e)
            ctx.check("product state: dense vector", ctx.eq(v, ref))
            return
        a = treelib.build_ttns(ctx, "a", tree, P.get("bond", 2), kind=("cplx" if P.get("cplx") else "real"))
        va = treelib.dense_ttns(a)
        undo = None
        if ctx.symbolic:
            _, undo = stubs.lapack_contract(ctx, modules=("renormalizer.mps.svd_qn",))
        try:
            if op == "add":
                b = treelib.build_ttns(ctx, "b", tree, P.get("bond", 2))
                vb = treelib.dense_ttns(b)
                c = a.add(b)
                ctx.check("add: dense(a + b) = dense(a) + dense(b)", ctx.eq(treelib.dense_ttns(c), va + vb))
                ctx.check("add: todense agrees", ctx.eq(np.asarray(c.todense()).reshape(-1), va + vb))
                ctx.check("add: inputs unchanged", ctx.all([ctx.eq(treelib.dense_ttns(a), va), ctx.eq(treelib.dense_ttns(b), vb)]))
            elif op == "scale_copy":
                val = ctx.real("val", -1.5)
                c = a.scale(val)
                ctx.check("scale: dense", ctx.eq(treelib.dense_ttns(c), va * val))
                ctx.check("scale: input unchanged", ctx.eq(treelib.dense_ttns(a), va))
                d = a.copy()
                ctx.check("copy: dense and no shared buffers", ctx.eq(treelib.dense_ttns(d), va) and all(not np.shares_memory(x.tensor, y.tensor) for x, y in zip(a, d)))
                e = a.to_complex()
                ctx.check("to_complex: dense", ctx.eq(treelib.dense_ttns(e), va))
                bl = treelib.nondummy_basis(tree)
                if len(bl) >= 2:
                    order = bl[::-1]
                    dims = [b.nbas for b in bl]
                    ref = va.reshape(dims).transpose(list(range(len(bl)))[::-1])
                    ctx.check("todense(order) = the same vector with permuted axes", ctx.eq(np.asarray(a.todense(order)), ref))
            elif op in ("apply", "expectation"):
                o = sym_ttno(ctx, "o", tree, 2)
                O = treelib.dense_ttno(o)
                if op == "apply":
                    c = o.apply(a)
                    ctx.check("TTNO.apply: dense", ctx.eq(treelib.dense_ttns(c), O.dot(va)))
                    ctx.check("TTNO @ TTNS", ctx.eq(treelib.dense_ttns(o @ a), O.dot(va)))
                    ctx.check("apply: input unchanged", ctx.eq(treelib.dense_ttns(a), va))
                else:
                    ref = lib.vdot(va, O.dot(va))
                    ctx.check("expectation (environment sweep) = <psi|O|psi>", ctx.eq(a.expectation(o), ref))
                    ctx.check("expectation1 (full contraction) = <psi|O|psi>", ctx.eq(a.expectation1(o), ref))
                    ctx.check("expectation leaves the trees detached from its scratch root", a.root.parent is None and o.root.parent is None and tree.root.parent is None)
            elif op == "norm":
                ctx.lemma_sos(va)
                r = a.ttns_norm
                ctx.check("ttns_norm^2 = <psi|psi>", ctx.eq(r * r, lib.vdot(va, va)))
            elif op == "canonicalise":
                a.canonicalise()
                ctx.check("canonicalise: dense unchanged", ctx.eq(treelib.dense_ttns(a), va))
                conds = []
                for node in a.node_list[1:]:
                    m = np.asarray(node.tensor).reshape(-1, node.tensor.shape[-1])
                    conds.append(ctx.eq(m.T.dot(m), np.eye(m.shape[1])))
                ctx.check("canonicalise: every non-root node is an isometry towards its parent", ctx.all(conds))
            elif op == "push_child":
                root = a.root
                a.push_cano_to_child(root, 0)
                ctx.check("push_cano_to_child: dense unchanged", ctx.eq(treelib.dense_ttns(a), va))
                t = np.moveaxis(np.asarray(root.tensor), 0, -1)
                m = t.reshape(-1, t.shape[-1])
                ctx.check("push_cano_to_child: the node is an isometry towards that child", ctx.eq(m.T.dot(m), np.eye(m.shape[1])))
            elif op == "compress":
                from renormalizer.utils import CompressConfig, CompressCriteria
                a.compress_config = CompressConfig(CompressCriteria.fixed, max_bonddim=64)
                a.canonicalise()
                bd = list(a.bond_dims)
                a.compress()
                ctx.check("lossless compress: dense unchanged", ctx.eq(treelib.dense_ttns(a), va))
                ctx.check("lossless compress: no bond grew", all(x <= y for x, y in zip(a.bond_dims, bd)))
            elif op == "rdm1":
                bl = treelib.nondummy_basis(tree)
                dims = [b.nbas for b in bl]
                psi = va.reshape(dims)
                rd = a.calc_1site_rdm()
                conds = []
                pos = 0
                for i, bn in enumerate(tree.node_list):
                    k = sum(1 for b in bn.basis_sets if not isinstance(b, BasisDummy))
                    keep = list(range(pos, pos + k))
                    pos += k
                    ref = _ptrace(psi, keep)
                    got = np.asarray(rd[i])
                    conds.append(ctx.eq(got.reshape(ref.shape) if got.size == ref.size else got, ref))
                ctx.check("one-site reduced density matrices = partial traces (ket indices first)", ctx.all(conds))
                d1 = a.calc_1dof_rdm()
                conds = []
                for j, b in enumerate(bl):
                    conds.append(ctx.eq(np.asarray(d1[b.dofs[0]]), _ptrace(psi, [j])))
                ctx.check("one-dof reduced density matrices = partial traces", ctx.all(conds))
                # history: query, modify the SAME object in place, query again - nothing remembered from the first query may survive
                if not P.get("cplx") and len(tree.node_list) >= 2:
                    kf = ctx.real("kscale", 0.5)
                    a.scale(kf, inplace=True)
                    if a.root.children:
                        a.push_cano_to_child(a.root, 0)
                    v2 = treelib.dense_ttns(a)
                    psi2 = v2.reshape(dims)
                    rd2 = a.calc_1site_rdm()
                    conds = []
                    pos = 0
                    for i, bn in enumerate(tree.node_list):
                        k = sum(1 for b in bn.basis_sets if not isinstance(b, BasisDummy))
                        keep = list(range(pos, pos + k))
                        pos += k
                        ref = _ptrace(psi2, keep)
                        got = np.asarray(rd2[i])
                        conds.append(ctx.eq(got.reshape(ref.shape) if got.size == ref.size else got, ref))
                    ctx.check("after an in-place scale and a gauge move on the same object the one-site reduced density matrices are those of the NEW state", ctx.all(conds))
            elif op == "rdm2":
                bl = treelib.nondummy_basis(tree)
                dims = [b.nbas for b in bl]
                psi = va.reshape(dims)
                firsts = []
                pos = 0
                for bn in tree.node_list:
                    k = sum(1 for b in bn.basis_sets if not isinstance(b, BasisDummy))
                    firsts.append(list(range(pos, pos + k)))
                    pos += k
                pairs = [(i, j) for i in range(len(tree.node_list)) for j in range(i + 1, len(tree.node_list))]
                rd = a.calc_2site_rdm(pairs)
                conds = []
                for (i, j) in pairs:
                    keep = firsts[i] + firsts[j]
                    ref = _ptrace(psi, keep)
                    got = np.asarray(rd[(i, j)])
                    conds.append(ctx.eq(got.reshape(ref.shape), ref) if got.size == ref.size else False)
                ctx.check("two-site reduced density matrices = partial traces (any pair of nodes)", ctx.all(conds))
                if not P.get("cplx") and pairs:
                    # history on the same object: in-place scale, then the same query again
                    kf = ctx.real("kscale", 0.5)
                    a.scale(kf, inplace=True)
                    psi2 = treelib.dense_ttns(a).reshape(dims)
                    rd2 = a.calc_2site_rdm(pairs)
                    conds = []
                    for (i, j) in pairs:
                        ref = _ptrace(psi2, firsts[i] + firsts[j])
                        got = np.asarray(rd2[(i, j)])
                        conds.append(ctx.eq(got.reshape(ref.shape), ref) if got.size == ref.size else False)
                    ctx.check("after an in-place scale of the same object the two-site reduced density matrices are those of the NEW state", ctx.all(conds))
            elif op == "dumpload":
                from checks.c14 import Store
                st = Store()

                class NpP:
                    def __getattr__(self, item):
                        return getattr(saved_np, item)
                    savez = staticmethod(st.savez)
                    load = staticmethod(st.load)
                saved_np = trmod.np
                trmod.np = NpP()
                try:
                    a.coeff = ctx.real("coeff", 0.7)
                    a.dump("t.npz")
                    b = TTNS.load(tree, "t.npz")
                finally:
                    trmod.np = saved_np
                ctx.check("dump/load: tensors, labels and prefactor identical", ctx.all([ctx.eq(x.tensor, y.tensor) for x, y in zip(a, b)] + [ctx.eq(b.coeff, a.coeff)]
                                                                                      + [lib.ctx_eq_labels(ctx, x.qn, y.qn) for x, y in zip(a, b)]))
            elif op == "child_order":
                # same state on the tree whose FIRST node with >= 2 children has them listed in reversed order
                target = None
                for i, bn in enumerate(tree.node_list):
                    if len(bn.children) >= 2:
                        target = i
                        break
                if target is None:
                    return
                tree2, a2 = _reordered(ctx, tree, a, target, tuple(P["kinds"]), P)
                o = sym_ttno(ctx, "o", tree, 2)
                o2 = _reordered_op(tree, tree2, o, target)
                bl = treelib.nondummy_basis(tree)
                v2 = np.asarray(a2.todense(bl2 := [b for b in bl]))   # same basis objects, same order requested
                ctx.check("children order: todense in a fixed DoF order is identical", ctx.eq(v2.reshape(-1), np.asarray(a.todense(bl)).reshape(-1)))
                ctx.check("children order: expectation value identical", ctx.eq(a2.expectation(o2), a.expectation(o)))
        finally:
            if undo:
                undo()
    return h


def _ptrace(psi, keep):
    """rho[kept ket idx..., kept bra idx...] = sum_rest psi[ket] conj(psi[bra])"""
    n = psi.ndim
    rest = [i for i in range(n) if i not in keep]
    t = np.transpose(psi, keep + rest)
    kshape = [psi.shape[i] for i in keep]
    dk = int(np.prod(kshape)) if kshape else 1
    t = t.reshape(dk, -1)
    rho = t.dot(np.conj(t.T))
    return rho.reshape(kshape + kshape)


def _reordered(ctx, tree, a, target, kinds, P):
    """a new BasisTree / TTNS sharing the basis-set objects, with the children of node `target` reversed"""
    from renormalizer.tn import TTNS, BasisTree, TreeNodeBasis
    from renormalizer.tn.node import TreeNodeTensor
    old_nodes = tree.node_list
    new_b = {id(n): TreeNodeBasis(list(n.basis_sets)) for n in old_nodes}
    new_t = {}
    for n, s in zip(old_nodes, a.node_list):
        t = np.asarray(s.tensor)
        if n is old_nodes[target]:
            k = len(n.children)
            t = np.moveaxis(t, list(range(k)), list(range(k))[::-1])
        new_t[id(n)] = TreeNodeTensor(t, np.asarray(s.qn).copy())
    for n in old_nodes:
        ch = list(n.children)
        if n is old_nodes[target]:
            ch = ch[::-1]
        for c in ch:
            new_b[id(n)].add_child(new_b[id(c)])
            new_t[id(n)].add_child(new_t[id(c)])
    tree2 = BasisTree(new_b[id(old_nodes[0])])
    a2 = TTNS(tree2, root=new_t[id(old_nodes[0])])
    return tree2, a2


def _reordered_op(tree, tree2, o, target):
    from renormalizer.tn import TTNO
    from renormalizer.tn.node import TreeNodeTensor
    old_nodes = tree.node_list
    new_t = {}
    for n, s in zip(old_nodes, o.node_list):
        t = np.asarray(s.tensor)
        if n is old_nodes[target]:
            k = len(n.children)
            t = np.moveaxis(t, list(range(k)), list(range(k))[::-1])
        new_t[id(n)] = TreeNodeTensor(t, np.asarray(s.qn).copy())
    for n in old_nodes:
        ch = list(n.children)
        if n is old_nodes[target]:
            ch = ch[::-1]
        for c in ch:
            new_t[id(n)].add_child(new_t[id(c)])
    return TTNO(tree2, [], root=new_t[id(old_nodes[0])])


def h_labelled(ctx, P):
    from symnum import stubs
    """states with non-trivial symmetry blocks: every operation must keep the vector, the sector and the label invariant"""
    from renormalizer.tn import TTNS, TTNO
    from renormalizer.model import Op
    from renormalizer.mps import symbolic_mpo as sm
    from renormalizer.utils import CompressConfig, CompressCriteria
    from checks import c01
    tree, nodes = treelib.build_basis_tree(P["parents"], P["counts"], tuple(P["kinds"]))
    q = P["qntot"]
    a = treelib.build_labelled_ttns(ctx, "a", tree, q, P["dup"])
    va = treelib.dense_ttns(a)
    sub = P["sub"]
    ctx.check("labelled harness state: invariant holds and the sector is the requested one", ctx.all([tree_inv(ctx, a), lib.ctx_eq_labels(ctx, a.qntot, [q])]))
    undo = None
    if ctx.symbolic:
        _, undo = stubs.lapack_contract(ctx, modules=("renormalizer.mps.svd_qn",))
    try:
        if sub == "add":
            b = treelib.build_labelled_ttns(ctx, "b", tree, q, 1)
            vb = treelib.dense_ttns(b)
            c = a.add(b)
            ctx.check("labelled add: dense(a + b) = dense(a) + dense(b)", ctx.eq(treelib.dense_ttns(c), va + vb))
            ctx.check("labelled add: invariant and sector of the sum", ctx.all([tree_inv(ctx, c), lib.ctx_eq_labels(ctx, c.qntot, [q])]))
            c.canonicalise()
            ctx.check("labelled add then canonicalise: dense unchanged, invariant kept", ctx.all([ctx.eq(treelib.dense_ttns(c), va + vb), tree_inv(ctx, c)]))
        elif sub == "canonicalise":
            a.canonicalise()
            ctx.check("labelled canonicalise: dense unchanged", ctx.eq(treelib.dense_ttns(a), va))
            ctx.check("labelled canonicalise: invariant and sector", ctx.all([tree_inv(ctx, a), lib.ctx_eq_labels(ctx, a.qntot, [q])]))
            conds = []
            for node in a.node_list[1:]:
                m = np.asarray(node.tensor).reshape(-1, node.tensor.shape[-1])
                conds.append(ctx.eq(m.T.dot(m), np.eye(m.shape[1])))
            ctx.check("labelled canonicalise: every non-root node is an isometry towards its parent", ctx.all(conds))
        elif sub == "push_child":
            root = a.root
            for ic in range(len(root.children)):
                a.push_cano_to_child(root, ic)
                ctx.check("labelled push_cano_to_child: dense unchanged, invariant kept", ctx.all([ctx.eq(treelib.dense_ttns(a), va), tree_inv(ctx, a)]))
                a.push_cano_to_parent(root.children[ic])
                ctx.check("labelled push_cano_to_parent: dense unchanged, invariant kept", ctx.all([ctx.eq(treelib.dense_ttns(a), va), tree_inv(ctx, a)]))
        elif sub == "compress":
            a.compress_config = CompressConfig(CompressCriteria.fixed, max_bonddim=64)
            a.canonicalise()
            a.compress()
            ctx.check("labelled lossless compress: dense unchanged", ctx.eq(treelib.dense_ttns(a), va))
            ctx.check("labelled lossless compress: invariant and sector", ctx.all([tree_inv(ctx, a), lib.ctx_eq_labels(ctx, a.qntot, [q])]))
        elif sub in ("apply", "expectation"):
            # number-conserving operator with symbolic couplings built by the real TTNO constructor
            bl = treelib.nondummy_basis(tree)
            el = [b for b in bl if b.is_electron]
            fs = [ctx.real("f%d" % k, [0.7, -1.3, 0.45, 1.9][k]) for k in range(4)]
            if ctx.symbolic:
                for f in fs:
                    ctx.assume(ctx.all([ctx.le(abs(f), 4), abs(f) > 1e-6]), "1e-6 < |f| <= 4")
            terms = [Op(r"a^\dagger a", [el[0].dofs[0], el[1].dofs[0]], fs[0]), Op(r"a^\dagger a", [el[1].dofs[0], el[0].dofs[0]], fs[0]),
                     Op(r"a^\dagger a", [el[-1].dofs[0], el[-1].dofs[0]], fs[1]), Op(r"a^\dagger a", [el[0].dofs[0], el[-1].dofs[0]], fs[2]),
                     Op(r"a^\dagger a", [el[-1].dofs[0], el[0].dofs[0]], fs[2])]
            osc = [b for b in bl if not b.is_electron]
            if osc:
                terms.append(Op(r"a^\dagger a x", [el[0].dofs[0], el[0].dofs[0], osc[0].dofs[0]], fs[3]))
            saved = sm.scipy
            if ctx.symbolic:
                import scipy as real_scipy

                class ScipyP:
                    sparse = c01.SparseProxy(real_scipy.sparse)

                    def __getattr__(self, item):
                        return getattr(real_scipy, item)
                sm.scipy = ScipyP()
            try:
                o = TTNO(tree, terms)
            finally:
                sm.scipy = saved
            O = treelib.dense_ttno(o)
            if sub == "apply":
                c = o.apply(a)
                ctx.check("labelled TTNO.apply: dense", ctx.eq(treelib.dense_ttns(c), O.dot(va)))
                ctx.check("labelled TTNO.apply: invariant and sector of the result", ctx.all([tree_inv(ctx, c), lib.ctx_eq_labels(ctx, c.qntot, [q])]))
                if P["dup"] == 1 and all(p_ == 0 for p_ in P["parents"]):      # star trees only: on deeper trees / with repeated labels the operator-times-state bonds give QR blocks whose obligations depend on the z3 budget
                    c.canonicalise()
                    ctx.check("labelled apply then canonicalise: dense unchanged, invariant kept", ctx.all([ctx.eq(treelib.dense_ttns(c), O.dot(va)), tree_inv(ctx, c)]))
            else:
                ctx.check("labelled expectation = <psi|O|psi>", ctx.eq(a.expectation(o), lib.vdot(va, O.dot(va))))
    finally:
        if undo:
            undo()


def h_from_mps(ctx, P):
    from renormalizer.tn.tree import from_mps
    from symnum import stubs
    n = P["n"]
    from renormalizer.model import Op
    model = lib.make_model(tuple(["s"] * n), terms=[Op("Z", "s0", 0.5), Op("X X", ["s0", "s%d" % (n - 1)], 0.3)])
    from checks.c09 import sym_state
    mps = sym_state(ctx, model, n, 2)
    mps.qnidx = n - 1
    mps.to_right = False
    v = lib.dense_vec(lib.tensors(mps))
    undo = None
    if ctx.symbolic:
        _, undo = stubs.lapack_contract(ctx, modules=("renormalizer.mps.svd_qn",))
    try:
        basis, ttns, ttno = from_mps(mps)
    finally:
        if undo:
            undo()
    # the tree lists the chain from the last site (root) to the first
    got = np.asarray(ttns.todense(list(model.basis))).reshape(-1)
    ctx.check("from_mps: the tree state is the chain state", ctx.eq(got, v))
    ctx.check("from_mps: input chain untouched", ctx.eq(lib.dense_vec(lib.tensors(mps)), v))


def main(tier, seed):
    treelib.ensure_print_tree()
    from renormalizer.tn import tree as tr
    T, O, E = tr.TTNS, tr.TTNO, tr.TTNEnviron
    return common.run_check(
        PROP, "checks.c11", tier, seed,
        explanation="TTNS/TTNO with fully symbolic node tensors (bond 2) on a strided subset (30, thorough 150) of all rooted trees with <= 4 (5) nodes and 0/1/2 basis sets per node "
                    "(dummy nodes included): add, scale, copy, to_complex, todense(order), TTNO.apply / @, expectation through TTNEnviron and through the full contraction, ttns_norm, "
                    "canonicalise (isometries towards the parent), push_cano_to_child, lossless compress, one-site / one-dof / two-site reduced density matrices, dump/load, invariance "
                    "under reversing the children of a node, from_mps, product-state constructor with quantum numbers - each against an independent pairwise einsum contraction.",
        assumptions=["entropies are NOT covered (eigh/log of float spectra)", "LAPACK by contract", "general-topology sweep with zero quantum-number labels (one block per node); symmetry blocks on 5 (8) labelled trees in the electron-number sectors 1..n-1 with repeated labels, and for "
                     "the product-state constructor", "expectation(bra=...) is not implemented by the library (it asserts) and is not part of the claim",
                     "partial operators on a sub-tree of the degrees of freedom and tree truncation error bounds are not covered in the quick tier"],
        trusted_base=["z3 5.1", "NumPy object loops (np.einsum on object arrays for the oracle)", "opt_einsum path execution", "LAPACK contract stubs"],
        functions=[T.__init__, T.add, T.scale, T.copy, T.to_complex, T.todense, T.to_contract_args, T.get_node_indices, T.expectation, T.expectation1, T.canonicalise, T.compress,
                   T.push_cano_to_parent, T.push_cano_to_child, T.decompose_to_parent, T.decompose_to_child, T.merge_to_parent, T.compress_node, T.calc_1site_rdm, T.calc_1dof_rdm,
                   T.calc_2site_rdm, O.apply, E.build_children_environ_node, E.build_parent_environ_node, tr.from_mps, tr.compress_recursion, tr.moveaxis])


if __name__ == "__main__":
    import argparse
    ap = argparse.ArgumentParser()
    ap.add_argument("--tier", default=os.environ.get("VERIF_TIER", "quick"))
    a = ap.parse_args()
    sys.exit(main(a.tier, int(os.environ.get("VERIF_SEED", "0"))))
