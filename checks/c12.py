"""C12 - tree tensor network time evolution: what the family can decide.

  * propagation-and-compression on trees: the real TTNS.evolve(prop_and_compress_tdrk4) on symbolic node
    tensors, symbolic operator tensors and symbolic tau (real and imaginary), with canonicalise/compress as
    the identity (C11 shows they preserve the vector), equals sum_{k<=4} (coeff tau)^k / k! H^k psi; on a
    linear tree it is the same polynomial as the chain's Taylor step of order 4;
  * effective operators of the projector-splitting / mean-field schemes: hop_expr1 (one node), hop_expr2
    (node + parent) and hop_expr0 (bond) applied to an arbitrary coefficient tensor equal the projection of H
    onto the corresponding tangent directions, on every enumerated topology; TTNEnviron's incremental updates
    (update_1bond / update_1site / update_2site) equal a freshly built environment;
  * the real projector-splitting sweeps (evolve_tdvp_ps, evolve_tdvp_ps2) with the local Krylov propagator
    replaced by a contract stub (arbitrary output) and LAPACK by its contract: at EVERY local step the
    effective operator handed to the propagator is the projection of H onto that tangent direction of the
    state as it is at that moment (no stale environment, right gauge bookkeeping), the local steps are
    +-tau/2 and add up to tau per node / -tau per bond; with the identity as local propagator the sweep
    returns the state it started from.
Accuracy / conservation laws of tree TDVP (Krylov and ODE float iterations, regularised inversion) are not
decidable by this family (DESIGN.md section 2).
"""
import os
import sys

VERIF = os.path.dirname(os.path.dirname(os.path.abspath(__file__)))
sys.path.insert(0, VERIF)
REPO = os.environ.get("VERIF_REPO", "/repo")
sys.path.insert(0, REPO)

import numpy as np  # noqa: E402
from checks import common, lib, treelib  # noqa: E402
from checks import c11  # noqa: E402

PROP = "C12"
RUN_OPTS = dict(max_paths=800, budget_s=40.0)


def instances(tier, seed):
    out = []
    kinds = ("s", "s", "s")
    structs = treelib.structures(4 if tier == "quick" else 5, kinds, tier, seed=seed + 3, cap=(16 if tier == "quick" else 80))
    for si, (par, cnt) in enumerate(structs):
        if len(cnt) < 2:
            continue
        for op in ("hop1", "hop2", "hop0", "environ"):
            if op == "hop0" and len(cnt) >= 5:
                continue      # bond operators on 5-node trees exceed the worker's memory cap (outside the bound)
            out.append(dict(op=op, kinds=kinds, parents=list(par), counts=list(cnt), label="%s parents=%s counts=%s" % (op, list(par), list(cnt)), key=op))
    # variable mean field: the time derivative handed to the ODE solver (time_derivative_vmf is a pure function of state and operator)
    vm = [((0,), (1, 1), 2, "real"), ((0, 0), (1, 1, 1), 1, "real"), ((0, 1), (1, 1, 1), 1, "real")]
    if tier == "thorough":
        vm += [((0,), (1, 1), 2, "cplx"), ((0, 0), (1, 1, 1), 2, "real"), ((0, 0), (0, 1, 1), 1, "real"), ((0,), (2, 1), 1, "real")]
    for par, cnt, ob, kind in vm:
        out.append(dict(op="vmf", kinds=kinds, parents=list(par), counts=list(cnt), obond=ob, kind=kind, run_opts=dict(max_paths=50, budget_s=8.0),
                        label="tree vmf derivative parents=%s counts=%s operator bond %d %s state" % (list(par), list(cnt), ob, kind), key="vmf"))
    for par, cnt in (((0, 0), (1, 1, 1)), ((0, 1), (1, 1, 1)), ((0, 0, 1), (1, 1, 1, 1))):
        for kind in ("real", "cplx"):
            out.append(dict(op="vmf", kinds=("s", "s", "s", "s")[:sum(cnt)], parents=list(par), counts=list(cnt), obond=2, kind=kind, concrete=True,
                            label="[float build] tree vmf derivative parents=%s counts=%s operator bond 2 %s state (real LAPACK; reachability witness)" % (list(par), list(cnt), kind), key="vmf"))
    # (parents, counts, operator bond dimension): four nested operator applications are degree-4 polynomials in every operator entry
    pcs = [((0,), (2, 1), 2), ((0,), (1, 1), 2), ((0, 0), (1, 1, 1), 1), ((0, 1), (1, 1, 1), 1), ((0, 0), (0, 1, 1), 1)]
    if tier == "thorough":
        pcs += [((0, 1, 1), (1, 0, 1, 1), 1), ((0, 0, 0), (0, 1, 1, 1), 1), ((0, 0, 1), (1, 1, 0, 1), 1)]      # (3 nodes with operator bond 2: memory cap)
    for par, cnt, ob in pcs:
        for imag in (False, True):
            out.append(dict(op="pc", kinds=kinds, parents=list(par), counts=list(cnt), imag=imag, obond=ob, run_opts=dict(budget_s=120.0), mem_gb=(8 if ob == 2 and len(cnt) > 2 else 3.5),
                            label="tree P&C parents=%s counts=%s operator bond %d imag=%s" % (list(par), list(cnt), ob, imag), key="pc"))
            if ob == 1 or len(cnt) == 2:
                out.append(dict(op="pc", kinds=kinds, parents=list(par), counts=list(cnt), imag=imag, obond=ob, normalize=True, run_opts=dict(budget_s=120.0),
                                label="tree P&C parents=%s counts=%s operator bond %d imag=%s normalize=True" % (list(par), list(cnt), ob, imag), key="pc/normalize"))
    out.append(dict(op="pc_chain", label="linear tree P&C = chain Taylor(4) step", key="pc/chain"))
    sweeps = [((0,), (1, 1)), ((0, 0), (1, 1, 1)), ((0, 1), (1, 1, 1)), ((0, 0), (0, 1, 1)), ((0, 1, 1), (1, 0, 1, 1))]
    if tier == "thorough":
        sweeps += [((0, 0, 0), (1, 1, 1, 0)), ((0, 0, 1), (1, 1, 0, 1)), ((0, 1, 1), (0, 1, 1, 1))]
    for par, cnt in sweeps:
        for method in ("tdvp_ps", "tdvp_ps2"):
            for local in ("arbitrary", "identity"):
                out.append(dict(op="sweep", method=method, local=local, kinds=kinds, parents=list(par), counts=list(cnt),
                                label="sweep %s local=%s parents=%s counts=%s" % (method, local, list(par), list(cnt)), key="sweep/%s" % method))
    # bond dimension 1 (product states): the zero-site step of a 1 x 1 bond matrix is still a propagation (it carries the scalar factor exp(-+E tau/2))
    for par, cnt in (((0, 0), (1, 1, 1)), ((0, 1), (1, 1, 1))):
        for method in ("tdvp_ps", "tdvp_ps2"):
            out.append(dict(op="sweep", method=method, local="arbitrary", sbond=1, kinds=kinds, parents=list(par), counts=list(cnt),
                            label="sweep %s local=arbitrary bond dimension 1 parents=%s counts=%s" % (method, list(par), list(cnt)), key="sweep/%s/bond1" % method))
    # per-node bond limits in the two-site scheme: each bond must be truncated with the limit of ITS OWN node
    for par, cnt in ([((0, 0), (1, 1, 1)), ((0, 1), (1, 1, 1))] + ([((0, 1, 1), (1, 0, 1, 1))] if tier == "thorough" else [])):
        for caps in ("exact", "tight"):
            out.append(dict(op="sweep", method="tdvp_ps2", local=("identity" if caps == "exact" else "arbitrary"), caps=caps, kinds=kinds, parents=list(par), counts=list(cnt),
                            label="sweep tdvp_ps2 per-node bond limits (%s) parents=%s counts=%s" % (caps, list(par), list(cnt)), key="sweep/tdvp_ps2/limits"))
    return out


class IdentityTreeCompression:
    def __enter__(self):
        from renormalizer.tn.tree import TTNS
        self.T = TTNS
        self.saved = (TTNS.canonicalise, TTNS.compress)
        TTNS.canonicalise = lambda self_: self_
        TTNS.compress = lambda self_, temp_m_trunc=None, ret_s=False: self_
        return self

    def __exit__(self, *a):
        self.T.canonicalise, self.T.compress = self.saved
        return False


class _SN:
    pass


def _shadow(ttns):
    nodes = ttns.node_list
    sh = []
    for n in nodes:
        s_ = _SN()
        s_.tensor = np.asarray(n.tensor)
        sh.append(s_)
    pos = {id(n): i for i, n in enumerate(nodes)}
    for s_, n in zip(sh, nodes):
        s_.children = [sh[pos[id(c)]] for c in n.children]
    return sh


def _preorder(node, out):
    out.append(node)
    for c in node.children:
        _preorder(c, out)
    return out


def _dense_shadow(root):
    t = _SN()
    t.node_list = _preorder(root, [])
    return treelib._dense(t, False), t.node_list


def h_vmf(ctx, P):
    """time_derivative_vmf(state, operator) against the gauge-fixed TDVP equations written with dense blocks (formula validated numerically against the tangent-space
    projection of O psi on canonical trees):  root: F_root;  other nodes: (1 - A A^h) F_i (S_i^-1)^T,  F_i = J_i^h (O psi) with J_i the dense Jacobian of psi with
    respect to node i,  S_i[p', p] = sum_x conj(E[x, p']) E[x, p] the overlap of the rest of the tree seen through the bond to the parent, inverse = u diag(1/w') u^h
    with w' = w + eps exp(-w/eps) from the decomposition the code itself requested (eigh by contract, exp uninterpreted)."""
    treelib.ensure_print_tree()
    from renormalizer.tn import time_evolution as te
    from symnum import stubs
    cplx = P["kind"] == "cplx"
    tree, nodes = treelib.build_basis_tree(P["parents"], P["counts"], tuple(P["kinds"]))
    a = treelib.build_ttns(ctx, "a", tree, 2, kind=P["kind"])
    o = c11.sym_ttno(ctx, "o", tree, P.get("obond", 2))
    Od = treelib.dense_ttno(o)
    eps = a.evolve_config.reg_epsilon
    eigs = []
    undo = None
    cur_scipy = te.scipy
    if ctx.symbolic:
        contract, undo = stubs.lapack_contract(ctx, modules=("renormalizer.mps.svd_qn", "renormalizer.tn.time_evolution"), cplx=cplx)
        inner = te.scipy.linalg.eigh
        proxied = te.scipy
    else:
        import scipy.linalg as _sl
        inner = _sl.eigh
        proxied = cur_scipy

    class _LA:
        def __getattr__(self, item):
            return getattr(proxied.linalg, item)

        @staticmethod
        def eigh(m, *aa, **k):
            w, u = inner(m, *aa, **k)
            eigs.append((np.array(np.asarray(m)), w, u))
            return w, u

    class _SP:
        linalg = _LA()

        def __getattr__(self, item):
            return getattr(proxied, item)
    te.scipy = _SP()
    try:
        got = np.asarray(te.time_derivative_vmf(a, o))
    finally:
        te.scipy = cur_scipy
        if undo:
            undo()
        te.scipy = cur_scipy
    odt = object if ctx.symbolic else complex
    psi = treelib.dense_ttns(a)
    Opsi = Od.dot(psi)
    tn = a.node_list
    refs, missing = [], []
    for i, n in enumerate(tn):
        A = np.asarray(n.tensor)
        cols = []
        for k in range(A.size):
            sh = _shadow(a)
            e = np.zeros(A.size, dtype=int)
            e[k] = 1
            sh[i].tensor = e.reshape(A.shape)
            cols.append(_dense_shadow(sh[0])[0])
        J = np.array(cols, dtype=odt).T
        F = np.conj(J).T.dot(Opsi).reshape(-1, A.shape[-1])
        if n.parent is None:
            refs.append(F.ravel())
            continue
        p_ = A.shape[-1]
        sh = _shadow(a)
        sh[i].tensor = np.eye(p_, dtype=int).reshape(p_, p_)
        sh[i].children = []
        E, lst = _dense_shadow(sh[0])
        dims, where = [], None
        for s_ in lst:
            t = s_.tensor
            for q in range(t.ndim - len(s_.children) - 1):
                if s_ is sh[i]:
                    where = len(dims)
                dims.append(t.shape[len(s_.children) + q])
        E = np.moveaxis(np.asarray(E).reshape(dims), where, -1).reshape(-1, p_)
        S = np.conj(E).T.dot(E)
        found = None
        for m, w, u in eigs:
            if m.shape != S.shape:
                continue
            same = ctx.eq(m, S)
            if (getattr(same, "op", "") == "true") if ctx.symbolic else bool(same):
                found = (w, u, False)
                break
            same = ctx.eq(m, S.T)
            if (getattr(same, "op", "") == "true") if ctx.symbolic else bool(same):
                found = (w, u, True)
                break
        if found is None:
            missing.append(i)
            refs.append(None)
            continue
        w, u, transposed = found
        w = np.asarray(w)
        u = np.asarray(u)
        wreg = w + eps * np.exp(-w / eps)
        Sinv = sum((np.outer(u[:, k], np.conj(u[:, k])) * (1 / wreg[k]) for k in range(len(wreg))), np.zeros(S.shape, dtype=odt))
        if transposed:
            Sinv = Sinv.T
        Am = A.reshape(-1, p_)
        Pm = Am.dot(np.conj(Am).T)
        refs.append((np.eye(Pm.shape[0], dtype=int) - Pm).dot(F).dot(Sinv.T).ravel())
    ctx.check("tree vmf: for every non-root node the matrix handed to eigh is the overlap of the rest of the tree seen through the bond to the parent", not missing, info=str(missing))
    conds, off = [], 0
    for i, n in enumerate(tn):
        sz = int(np.asarray(n.tensor).size)
        if refs[i] is not None:
            conds.append(ctx.eq(got[off:off + sz], refs[i]))
        off += sz
    ctx.check("tree vmf: derivative vector has one entry per tensor entry, nodes in node_list order", off == len(got))
    ctx.check("tree vmf: derivative of every node = (1 - A A^h) F_i (S_i^-1)^T (root: F), regularised inverse as documented", ctx.all(conds))


def make_harness(P):
    op = P["op"]

    def h(ctx):
        treelib.ensure_print_tree()
        from renormalizer.tn import TTNS, TTNO, BasisTree
        from renormalizer.tn import tree as trmod, hop_expr as he, time_evolution as te
        from renormalizer.utils import EvolveConfig, EvolveMethod, CompressConfig, CompressCriteria
        if op == "pc_chain":
            return h_pc_chain(ctx)
        if op == "sweep":
            return h_sweep(ctx, P)
        if op == "vmf":
            return h_vmf(ctx, P)
        tree, nodes = treelib.build_basis_tree(P["parents"], P["counts"], tuple(P["kinds"]))
        a = treelib.build_ttns(ctx, "a", tree, 2)
        o = c11.sym_ttno(ctx, "o", tree, P.get("obond", 2))
        va = treelib.dense_ttns(a)
        O = treelib.dense_ttno(o)
        if op == "pc":
            tau = ctx.real("tau", 0.3)
            ctx.assume(ctx.lt(0, tau), "tau > 0")
            a.evolve_config = EvolveConfig(EvolveMethod.prop_and_compress_tdrk4)
            a.compress_config = CompressConfig(CompressCriteria.fixed, max_bonddim=10 ** 6)
            t = tau * (-1j) if P["imag"] else tau
            # the normalisation switch: `normalize` is replaced by a recording identity, so that (a) its square roots stay out of the polynomial obligation and
            # (b) WHETHER and HOW evolve() calls it becomes an obligation of its own (normalize=False: never; True: once, "mps_and_coeff" for imaginary and
            # "mps_only" for real time)
            calls = []
            real_norm = trmod.TTNS.normalize
            trmod.TTNS.normalize = lambda self_, kind_: (calls.append(kind_), self_)[1]
            try:
                with IdentityTreeCompression():
                    res = a.evolve(o, t, normalize=bool(P.get("normalize", False)))
            finally:
                trmod.TTNS.normalize = real_norm
            want = ([] if not P.get("normalize") else (["mps_and_coeff"] if P["imag"] else ["mps_only"]))
            ctx.check("TTNS.evolve(normalize=%s) calls normalize %s" % (bool(P.get("normalize", False)), "never" if not want else "exactly once with kind %r" % want[0]), calls == want)
            # imaginary time: exp(-tau H) ; real time: exp(-i tau H)   (tau.imag = -tau, coeff = 1  |  coeff = -i)
            z = (tau * -1) if P["imag"] else (tau * (-1j))
            ref = va
            v = va
            from math import factorial
            for k in range(1, 5):
                v = O.dot(v) * z
                ref = ref + v / factorial(k)
            ctx.check("tree P&C step = sum_{k<=4} (coeff tau)^k/k! H^k psi", ctx.eq(treelib.dense_ttns(res) * res.coeff, ref))
            return
        ttne = trmod.TTNEnviron(a, o)

        if op in ("hop1", "hop2", "hop0"):
            conds = []
            for ni, snode in enumerate(a.node_list):
                if op == "hop1":
                    x = ctx.array("x%d" % ni, snode.shape, "real")
                    y = np.asarray(he.hop_expr1(snode, a, o, ttne)(x))
                    # reference: gradient structure  y[idx] = d/d(conj node[idx]) <psi[node<-.]| H |psi[node<-x]>
                    psi_x = _dense_with(a, {ni: x})
                    Hpsi = O.dot(psi_x)
                    ref = _project(a, {ni}, Hpsi, snode.shape)
                    conds.append(ctx.eq(y, ref))
                elif op == "hop2":
                    if snode.parent is None:
                        continue
                    pi = a.node_idx[snode.parent]
                    merged_shape = list(snode.shape[:-1])
                    psh = list(snode.parent.shape)
                    del psh[snode.parent.children.index(snode)]
                    merged_shape += psh
                    x = ctx.array("x%d" % ni, tuple(merged_shape), "real")
                    expr, hdiag = he.hop_expr2(snode, a, o, ttne)
                    y = np.asarray(expr(x))
                    psi_x = _dense_with_two(a, ni, pi, x)
                    Hpsi = O.dot(psi_x)
                    ref = _project_two(a, ni, pi, Hpsi, merged_shape)
                    conds.append(ctx.eq(y, ref))
                else:
                    if snode.parent is None:
                        continue
                    # bond matrix between snode (first index) and its parent (second index)
                    d = snode.shape[-1]
                    x = ctx.array("x%d" % ni, (d, d), "real")
                    y = np.asarray(he.hop_expr0(snode, a, o, ttne)(x))
                    psi_x = _dense_with_bond(a, ni, x)
                    Hpsi = O.dot(psi_x)
                    ref = _project_bond(a, ni, Hpsi, (d, d))
                    conds.append(ctx.eq(y, ref))
            ctx.check("%s applied to an arbitrary coefficient tensor = projection of H psi onto that tangent direction (every node)" % op, ctx.all(conds))
        elif op == "environ":
            conds = []

            def same(x, y):
                conds.append(ctx.eq(np.asarray(x), np.asarray(y)))
            for ni, snode in enumerate(a.node_list):
                keep = [np.asarray(n.tensor) for n in a.node_list]
                par = snode.parent
                pi = a.node_idx[par] if par is not None else None
                for upd in ("1site", "1bond", "2site"):
                    if upd != "1site" and par is None:
                        continue
                    for n, t in zip(a.node_list, keep):
                        n.tensor = t
                    e = trmod.TTNEnviron(a, o)
                    snode.tensor = ctx.array("n%d%s" % (ni, upd), snode.shape, "real")
                    if upd != "1site":
                        par.tensor = ctx.array("p%d%s" % (ni, upd), par.shape, "real")
                    getattr(e, "update_" + upd)(snode, a, o)
                    f = trmod.TTNEnviron(a, o)
                    en, fn = e.node_list[ni], f.node_list[ni]
                    if par is not None:
                        ic = par.children.index(snode)
                        same(e.node_list[pi].environ_children[ic], f.node_list[pi].environ_children[ic])
                    if upd == "1site":
                        for c1, c2 in zip(en.children, fn.children):
                            same(c1.environ_parent, c2.environ_parent)
                    elif upd == "1bond":
                        same(en.environ_parent, fn.environ_parent)
                    else:
                        gp = par.parent
                        if gp is not None:
                            gi = a.node_idx[gp]
                            jc = gp.children.index(par)
                            same(e.node_list[gi].environ_children[jc], f.node_list[gi].environ_children[jc])
                        for c1, c2 in zip(e.node_list[pi].children, f.node_list[pi].children):
                            same(c1.environ_parent, c2.environ_parent)
                        for c1, c2 in zip(en.children, fn.children):
                            same(c1.environ_parent, c2.environ_parent)
                for n, t in zip(a.node_list, keep):
                    n.tensor = t
            ctx.check("the environments an incremental update (1site / 1bond / 2site) is responsible for = those of a freshly built environment", ctx.all(conds))
    return h


# ---- dense helpers: replace node tensors and contract with the independent oracle
def _clone_with(a, repl):
    from renormalizer.tn import TTNS
    from renormalizer.tn.node import TreeNodeTensor, copy_connection
    nodes = []
    for i, n in enumerate(a.node_list):
        t = repl.get(i, np.asarray(n.tensor))
        nodes.append(TreeNodeTensor(t, np.zeros((np.asarray(t).shape[-1], a.basis.qn_size), dtype=int)))
    root = copy_connection(a.node_list, nodes)
    return TTNS(a.basis, root=root)


def _dense_with(a, repl):
    return treelib.dense_ttns(_clone_with(a, repl))


def _unit(shape, idx, symbolic):
    t = np.zeros(shape, dtype=object if symbolic else float)
    t[idx] = 1
    return t


def _project(a, nset, Hpsi, shape):
    (ni,) = tuple(nset)
    out = np.empty(shape, dtype=Hpsi.dtype)
    for idx in np.ndindex(*shape):
        b = _dense_with(a, {ni: _unit(shape, idx, Hpsi.dtype == object)})
        out[idx] = sum((x * y for x, y in zip(b, Hpsi)), 0)
    return out


def _dense_with_two(a, ni, pi, x):
    """psi with (node, parent) replaced by the merged tensor x [node children.., node phys.., parent children (without node).., parent phys.., parent's parent]:
    realised by giving the node an exact reshaping of x with a widened bond and the parent a Kronecker-delta tensor"""
    snode, pnode = a.node_list[ni], a.node_list[pi]
    nshape = list(snode.shape[:-1])
    pshape = list(pnode.shape)
    ich = pnode.children.index(snode)
    rest = pshape[:ich] + pshape[ich + 1:]
    R = int(np.prod(rest))
    node_t = np.asarray(x).reshape(nshape + [R])
    # parent: delta between the widened bond (at position ich) and its own remaining indices
    par = np.zeros([R] + rest, dtype=object if node_t.dtype == object else float)
    for r, idx in enumerate(np.ndindex(*rest)):
        par[(r,) + idx] = 1
    par = np.moveaxis(par, 0, ich)
    return _dense_with(a, {ni: node_t, pi: par})


def _project_two(a, ni, pi, Hpsi, shape):
    out = np.empty(shape, dtype=Hpsi.dtype)
    for idx in np.ndindex(*shape):
        b = _dense_with_two(a, ni, pi, _unit(tuple(shape), idx, Hpsi.dtype == object))
        out[idx] = sum((x * y for x, y in zip(b, Hpsi)), 0)
    return out


def _dense_with_bond(a, ni, x):
    """psi with the matrix x inserted on the bond between node ni (first index) and its parent (second index)"""
    snode = a.node_list[ni]
    t = np.tensordot(np.asarray(snode.tensor), np.asarray(x), axes=([-1], [0]))
    return _dense_with(a, {ni: t})


def _project_bond(a, ni, Hpsi, shape):
    out = np.empty(shape, dtype=Hpsi.dtype)
    for idx in np.ndindex(*shape):
        b = _dense_with_bond(a, ni, _unit(shape, idx, Hpsi.dtype == object))
        out[idx] = sum((x * y for x, y in zip(b, Hpsi)), 0)
    return out


def h_pc_chain(ctx):
    """linear tree versus chain implementation: the same polynomial"""
    from renormalizer.tn import TTNS, TTNO, BasisTree
    from renormalizer.tn.node import TreeNodeTensor, copy_connection
    from renormalizer.utils import EvolveConfig, EvolveMethod, CompressConfig, CompressCriteria
    from checks import c09
    n = 2
    model = lib.make_model(("s", "s"))
    psi = c09.sym_state(ctx, model, n, 2)
    H = c09.sym_op(ctx, model, n, 2, "o")
    tau = ctx.real("tau", 0.3)
    ctx.assume(ctx.lt(0, tau), "tau > 0")
    # the chain's own P&C step is shown equal to its Taylor/RK polynomial of the dense operator in C09; the common reference here is
    # that polynomial built from the CHAIN's dense vector and dense operator (the chain and the tree form 1/k! as different floats,
    # so the two polynomials are compared through the exact-coefficient reference, not with each other)
    from math import factorial
    vec = lib.dense_of(psi)
    Hd = lib.dense_of(H)
    z = tau * (-1j)
    chain_vec = vec
    v = vec
    for k in range(1, 5):
        v = Hd.dot(v) * z
        chain_vec = chain_vec + v / factorial(k)
    # the same tensors on the linear tree: root = last site ... leaf = first site
    basis = BasisTree.linear(model.basis[::-1])
    tn = []
    on = []
    for i in range(n - 1, -1, -1):
        t = np.asarray(psi[i].array)          # (l, p, r)
        ot = np.asarray(H[i].array)           # (l, u, d, r)
        if i == 0:
            t = t[0]                          # leaf: (p, r)
            ot = ot[0]
        tn.append(TreeNodeTensor(t, np.zeros((t.shape[-1], 1), dtype=int)))
        on.append(TreeNodeTensor(ot, np.zeros((ot.shape[-1], 1), dtype=int)))
    sroot = copy_connection(basis.node_list, tn)
    oroot = copy_connection(basis.node_list, on)
    s = TTNS(basis, root=sroot)
    o = TTNO(basis, [], root=oroot)
    s.evolve_config = EvolveConfig(EvolveMethod.prop_and_compress_tdrk4)
    s.compress_config = CompressConfig(CompressCriteria.fixed, max_bonddim=10 ** 6)
    with IdentityTreeCompression():
        tree_res = s.evolve(o, tau, normalize=False)
    tv = np.asarray(tree_res.todense(list(model.basis))).reshape(-1) * tree_res.coeff
    ctx.check("linear tree P&C step = 4th-order Taylor polynomial of the chain's dense operator applied to the chain's dense vector", ctx.eq(tv, chain_vec))


def h_sweep(ctx, P):
    """the real projector-splitting sweeps with the local Krylov propagation replaced by a contract stub:
    at EVERY local step of the real sweep the effective operator handed to the propagator must be the projection of H
    onto that tangent direction of the state as it is AT THAT MOMENT (fresh environments, correct gauge bookkeeping),
    the local time steps must add up to tau for every node (+tau/2 per half sweep) and to zero net bond evolution,
    and with the identity as local propagator the sweep must return the state it started from."""
    from renormalizer.tn import time_evolution as te, hop_expr as he, tree as trmod
    from renormalizer.utils import EvolveConfig, EvolveMethod, CompressConfig, CompressCriteria
    from symnum import stubs
    tree, nodes = treelib.build_basis_tree(P["parents"], P["counts"], tuple(P["kinds"]))
    a = treelib.build_ttns(ctx, "a", tree, P.get("sbond", 2))
    o = c11.sym_ttno(ctx, "o", tree, 2)
    O = treelib.dense_ttno(o)
    va = treelib.dense_ttns(a)
    tau = ctx.real("tau", 0.2)
    ctx.assume(ctx.lt(0, tau), "tau > 0")
    coeff = -1j
    a.compress_config = CompressConfig(CompressCriteria.fixed, max_bonddim=64)
    caps = None
    if P.get("caps"):
        # limit of node i = limit of its bond to the parent; the root's entry is unused by a correct implementation
        if P["caps"] == "exact":
            caps = [1] + [2] * (len(a.node_list) - 1)
        else:
            caps = [8] + [1] * (len(a.node_list) - 1)
        a.compress_config.max_dims = np.array(caps)
    identity = P["local"] == "identity"
    log = []          # (kind, node index, dt)
    conds = []
    cnt = [0]
    cur = {}

    def fake_expm(afunc, dt, v, *args, **kw):
        kind, snode = cur["kind"], cur["node"]
        ni = a.node_idx[snode]
        v = np.asarray(v)
        log.append((kind, ni, dt))
        if not identity:
            cnt[0] += 1
            if kind == 1:
                shape = tuple(snode.shape)
                x = ctx.array("x%d_" % cnt[0], shape, "real")
                ref = _project(a, {ni}, O.dot(_dense_with(a, {ni: x})), shape)
            elif kind == 2:
                pi = a.node_idx[snode.parent]
                shape = list(snode.shape[:-1])
                psh = list(snode.parent.shape)
                del psh[snode.parent.children.index(snode)]
                shape = tuple(shape + psh)
                x = ctx.array("x%d_" % cnt[0], shape, "real")
                ref = _project_two(a, ni, pi, O.dot(_dense_with_two(a, ni, pi, x)), shape)
            else:
                shape = cur["shape"]
                x = ctx.array("x%d_" % cnt[0], shape, "real")
                ref = _project_bond(a, ni, O.dot(_dense_with_bond(a, ni, x)), shape)
            y = np.asarray(afunc(x.ravel())).reshape(shape)
            conds.append(ctx.eq(y, ref))
            return ctx.array("k%d_" % cnt[0], v.shape, "real"), 1
        return v, 1

    saved = (te.expm_krylov, te.evolve_1site, te.evolve_0site, te.evolve_2site)
    r1, r0, r2 = te.evolve_1site, te.evolve_0site, te.evolve_2site

    def w1(snode, *args):
        cur.update(kind=1, node=snode)
        return r1(snode, *args)

    def w2(snode, *args):
        cur.update(kind=2, node=snode)
        return r2(snode, *args)

    def w0(ms, snode, *args):
        cur.update(kind=0, node=snode, shape=tuple(np.asarray(ms).shape))
        return r0(ms, snode, *args)
    te.expm_krylov, te.evolve_1site, te.evolve_0site, te.evolve_2site = fake_expm, w1, w0, w2
    T = trmod.TTNS
    saved_cc = T.check_canonical
    T.check_canonical = lambda self_, *a_, **k_: True      # arbitrary (not canonical) start state: the obligations do not depend on the gauge
    undo = None
    if ctx.symbolic:
        _, undo = stubs.lapack_contract(ctx, modules=("renormalizer.mps.svd_qn",))
    try:
        fn = te.evolve_tdvp_ps if P["method"] == "tdvp_ps" else te.evolve_tdvp_ps2
        res = fn(a, o, coeff, tau)
    finally:
        te.expm_krylov, te.evolve_1site, te.evolve_0site, te.evolve_2site = saved
        T.check_canonical = saved_cc
        if undo:
            undo()
    n = len(a.node_list)
    if caps is not None:
        ctx.check("two-site scheme with per-node bond limits: every bond obeys the limit of its own node",
                  all(int(nd.tensor.shape[-1]) <= caps[i] for i, nd in enumerate(res.node_list) if nd.parent is not None))
        if P["caps"] == "tight":
            return
    if identity:
        ctx.check("%s with the identity as local propagator returns the state it started from (gauge moves and merges are exact)" % P["method"],
                  ctx.eq(treelib.dense_ttns(res) * res.coeff, va))
        return
    ctx.check("%s: at every local step of the real sweep the effective operator = projection of H onto that tangent direction of the CURRENT state" % P["method"], ctx.all(conds))
    # time bookkeeping: net time per node = tau, per bond = 0 when two-site steps are counted for both of their nodes and the connecting bond
    half = tau / 2
    tconds = []
    node_t = [0] * n
    bond_t = [0] * n      # bond of node i to its parent
    for kind, ni, dt in log:
        if kind == 1:
            node_t[ni] = node_t[ni] + dt
        elif kind == 0:
            bond_t[ni] = bond_t[ni] + dt
        else:
            pi = a.node_idx[a.node_list[ni].parent]
            node_t[ni] = node_t[ni] + dt
            node_t[pi] = node_t[pi] + dt
            bond_t[ni] = bond_t[ni] - dt      # a two-site step evolves the pair: node + parent - bond
        tconds.append(ctx.any([ctx.eq(dt, coeff * half), ctx.eq(dt, coeff * half * -1)]))
    total = sum(node_t[1:], node_t[0]) + sum(bond_t[1:], 0)
    tconds.append(ctx.eq(total, coeff * tau))
    if P["method"] == "tdvp_ps":
        for i in range(n):
            tconds.append(ctx.eq(node_t[i], coeff * tau))
            if i:
                tconds.append(ctx.eq(bond_t[i], coeff * tau * -1))
        tconds.append(len(log) == 2 * n + 2 * (n - 1))
    else:
        for i in range(1, n):
            # two-site step on every bond twice (tau/2 each)
            tconds.append(sum(1 for k, ni, _ in log if k == 2 and ni == i) == 2)
        for i, nd in enumerate(a.node_list):
            deg = len(nd.children) + (1 if nd.parent is not None else 0)
            tconds.append(ctx.eq(node_t[i], coeff * tau * deg - coeff * tau * (deg - 1)))
    ctx.check("%s: local time steps are +-tau/2 and add up to tau for every node (and -tau for every bond in the one-site scheme)" % P["method"], ctx.all(tconds))


def main(tier, seed):
    treelib.ensure_print_tree()
    from renormalizer.tn import time_evolution as te, hop_expr as he, tree as tr
    return common.run_check(
        PROP, "checks.c12", tier, seed,
        explanation="Tree propagation-and-compression (real and imaginary tau symbolic, canonicalise/compress identity) = 4th-order Taylor polynomial of the dense operator, and equal to the "
                    "chain's Taylor(4) step on a linear tree; hop_expr1 / hop_expr2 / hop_expr0 applied to arbitrary coefficient tensors = projections of H psi (every node of a "
                    "strided subset of all trees with <= 4 (5) nodes, 0-2 basis sets per node, dummy nodes); incremental TTNEnviron updates = fresh environments; the real one-site and two-site projector-splitting sweeps on 5 (10) trees with "
                    "the local Krylov propagator replaced by an arbitrary-output stub: effective operator at every local step = projection of H on the current state, time-step "
                    "bookkeeping (+-tau/2; tau per node, -tau per bond), identity propagator => state unchanged. Variable mean field: time_derivative_vmf(state, operator) on 2-3 node "
                    "trees (chain, star, dummy root, two sets on a node) with eigh by contract and exp uninterpreted: derivative of every node = (1 - A A^h) F_i (S_i^-1)^T with dense "
                    "references (F_i = J_i^h O psi, S_i = overlap of the rest of the tree through the parent bond), the matrix handed to eigh = that overlap; float-build twins "
                    "(3-4 nodes, real LAPACK) as reachability witnesses.",
        assumptions=["variable mean field: the derivative function only (the ODE integration is scipy's solve_ivp); the equations are compared as polynomial identities on an arbitrary (not "
                     "necessarily canonical) state; a violated equation is reported through the float-build twins (z3 cannot satisfy the eigen-decomposition contracts)",
                     "NOT covered (DESIGN.md section 2): accuracy, norm/energy conservation of evolve_tdvp_ps / ps2 / vmf (Krylov, solve_ivp, regularised inversion are float iterations)",
                     "symmetry-sector conservation of tree operations rests on the label handling checked in C11/C06 (zero labels on the symbolic trees here)",
                     "canonicalise/compress identity stubs inside the P&C harness (C11)", "expm_krylov replaced by a stub returning an arbitrary vector (or its input) inside the sweep harness; "
                     "QR/SVD by their contracts; check_canonical skipped (obligations do not depend on the gauge)"],
        trusted_base=["z3 5.1", "NumPy object loops / np.einsum oracle", "opt_einsum path execution", "LAPACK contract stubs"],
        functions=[te.time_derivative_vmf, te.regularized_inversion, te.evolve_prop_and_compress_tdrk4, tr.TTNS.evolve, he.hop_expr0, he.hop_expr1, he.hop_expr2, tr.TTNEnviron.update_1bond, tr.TTNEnviron.update_1site,
                   tr.TTNEnviron.update_2site, te.evolve_tdvp_ps, te.evolve_tdvp_ps2, te._tdvp_ps_forward, te._tdvp_ps_backward, te._tdvp_ps2_recursion_forward,
                   te._tdvp_ps2_recursion_backward, te.evolve_1site, te.evolve_0site, te.evolve_2site, tr.TTNS.update_2site, tr.TTNS.merge_with_parent])


if __name__ == "__main__":
    import argparse
    ap = argparse.ArgumentParser()
    ap.add_argument("--tier", default=os.environ.get("VERIF_TIER", "quick"))
    a = ap.parse_args()
    sys.exit(main(a.tier, int(os.environ.get("VERIF_SEED", "0"))))
