"""C03 - state / operator arithmetic agrees with dense linear algebra in any gauge.

Each instance fixes a small structure (site kinds, bond dimensions, bond labels, position of the
quantum-number centre and sweep direction of *each* operand) and runs ONE real arithmetic method on
operands whose every label-allowed tensor entry and scalar prefactor is a solver variable.  The
obligations are (a) the dense identity against an independent harness-side contraction and (b) the
representation invariant of DESIGN.md/C06 on the result - the precondition under which C04 proves
that a subsequent canonicalise/compress keeps the object - and (c) the inputs' represented objects.
"""
import itertools
import os
import sys

VERIF = os.path.dirname(os.path.dirname(os.path.abspath(__file__)))
sys.path.insert(0, VERIF)
REPO = os.environ.get("VERIF_REPO", "/repo")
sys.path.insert(0, REPO)

import numpy as np  # noqa: E402
from checks import common, lib  # noqa: E402

PROP = "C03"
RUN_OPTS = dict(max_paths=4000, budget_s=30.0)

STATE2 = ["add", "sub", "dot", "distance"]
STATE1 = ["scale", "conj", "copy", "norm", "move_qnidx", "to_complex"]
OPER = ["apply_mps", "apply_mpo", "conj_trans", "mpo_add", "mpo_scale", "mpo_dot"]
MPDM = ["mpdm_from_mps", "mpdm_apply", "mpo_apply_mpdm"]


def _structs(tier):
    if tier == "quick":
        return [(("e", "e"), [(1, 2, 1), (1, 1, 1)]),
                (("e", "e", "e"), [(1, 2, 2, 1), (1, 1, 2, 1)]),
                (("e", "w", "e"), [(1, 2, 2, 1)])]
    return [(("e", "e"), [(1, 2, 1), (1, 1, 1), (1, 3, 1)]),
            (("e", "e", "e"), [(1, 2, 2, 1), (1, 1, 2, 1), (1, 2, 1, 1), (1, 2, 3, 1)]),
            (("e", "v", "e"), [(1, 2, 2, 1)]),
            (("e", "e", "e", "e"), [(1, 2, 2, 2, 1)]),
            (("S", "S", "S"), [(1, 2, 2, 1)])]


def instances(tier, seed):
    out = []
    lab_cap = 2 if tier == "quick" else 4
    qntots = [1] if tier == "quick" else [0, 1, 2]
    kinds_cplx = ["real"] if tier == "quick" else ["real", "cplx"]

    def add(op, **kw):
        kw["op"] = op
        kw["label"] = "%s %s" % (op, " ".join("%s=%s" % (k, _short(v)) for k, v in sorted(kw.items()) if k not in ("op", "qn_a", "qn_b", "qn_o")))
        kw["label"] += " qa=%s" % _short(kw.get("qn_a")) + (" qb=%s" % _short(kw.get("qn_b")) if kw.get("qn_b") else "") + (" qo=%s" % _short(kw.get("qn_o")) if kw.get("qn_o") else "")
        kw["key"] = op
        out.append(kw)

    for kinds, bond_list in _structs(tier):
        n = len(kinds)
        vals = (0, 1, 2) if "S" not in kinds else (-1, 0, 1)
        for qntot in qntots:
            if "S" in kinds:
                qntot = 1
            for bonds_a in bond_list:
                for qa in range(n):
                    labs_a = lib.label_structures(kinds, bonds_a, qntot, qa, values=vals, cap=lab_cap, stride_seed=seed)
                    for la in labs_a:
                        for kind in kinds_cplx:
                            for op in STATE1:
                                if op == "move_qnidx":
                                    for dst in range(n):
                                        add(op, kinds=kinds, bonds_a=bonds_a, qntot=qntot, qnidx_a=qa, qn_a=la, kind=kind, dst=dst)
                                else:
                                    add(op, kinds=kinds, bonds_a=bonds_a, qntot=qntot, qnidx_a=qa, qn_a=la, kind=kind)
                        # two-operand ops: second operand with every centre position
                        for bonds_b in bond_list[:2]:
                            for qb in range(n):
                                labs_b = lib.label_structures(kinds, bonds_b, qntot, qb, values=vals, cap=1, stride_seed=seed + 1)
                                for lb in labs_b:
                                    for op in STATE2:
                                        # complex entries: `dot` everywhere in the thorough tier; `distance` stays real
                                        ck = "real"
                                        if tier != "quick" and op == "dot":
                                            ck = "cplx"
                                        # (`distance` with complex entries: the square root of a complex quadratic form stays `unknown` at the budget - outside the bound)
                                        add(op, kinds=kinds, bonds_a=bonds_a, bonds_b=bonds_b, qntot=qntot, qnidx_a=qa, qnidx_b=qb,
                                            qn_a=la, qn_b=lb, kind=ck)
        # operator ops: operator charge dq in {0, +1, -1}
        if n > 3 and tier != "thorough":
            continue
        for bonds_o in bond_list[:1]:
            for dq in ((0, 1) if tier == "quick" else (0, 1, -1)):
                for qo in (range(n) if tier != "quick" else (0, n - 1)):
                    labs_o = lib.label_structures(kinds, bonds_o, dq, qo, values=(-1, 0, 1), cap=lab_cap, cls="mpo", stride_seed=seed)
                    for lo in labs_o:
                        add("conj_trans", kinds=kinds, bonds_o=bonds_o, dq=dq, qnidx_o=qo, qn_o=lo, kind="real" if tier == "quick" else "cplx")
                        add("mpo_scale", kinds=kinds, bonds_o=bonds_o, dq=dq, qnidx_o=qo, qn_o=lo, kind="real")
                        for qa in range(n):
                            bonds_a = bond_list[0]
                            qntot = 1 if "S" not in kinds else 1
                            for la in lib.label_structures(kinds, bonds_a, qntot, qa, values=vals, cap=1, stride_seed=seed):
                                add("apply_mps", kinds=kinds, bonds_o=bonds_o, dq=dq, qnidx_o=qo, qn_o=lo, bonds_a=bonds_a, qntot=qntot,
                                    qnidx_a=qa, qn_a=la, kind="real")
                                add("mpdm_apply", kinds=kinds, bonds_o=bonds_o, dq=dq, qnidx_o=qo, qn_o=lo, bonds_a=bonds_a, qntot=qntot,
                                    qnidx_a=qa, qn_a=la, kind="real")
                                add("mpo_apply_mpdm", kinds=kinds, bonds_o=bonds_o, dq=dq, qnidx_o=qo, qn_o=lo, bonds_a=bonds_a, qntot=qntot,
                                    qnidx_a=qa, qn_a=la, kind="real")
                        # operator x operator, operator + operator
                        bonds_p = bond_list[-1]
                        for qp in (0, n - 1):
                            for lp in lib.label_structures(kinds, bonds_p, dq, qp, values=(-1, 0, 1), cap=1, cls="mpo", stride_seed=seed + 2):
                                add("mpo_add", kinds=kinds, bonds_o=bonds_o, dq=dq, qnidx_o=qo, qn_o=lo, bonds_b=bonds_p, qnidx_b=qp, qn_b=lp, kind="real")
                                add("mpo_dot", kinds=kinds, bonds_o=bonds_o, dq=dq, qnidx_o=qo, qn_o=lo, bonds_b=bonds_p, qnidx_b=qp, qn_b=lp, kind="real")
                                if n <= 2 or tier == "thorough":
                                    add("apply_mpo", kinds=kinds, bonds_o=bonds_o, dq=dq, qnidx_o=qo, qn_o=lo, bonds_b=bonds_p, qnidx_b=qp, qn_b=lp, kind="real")
        for bonds_a in bond_list[:1]:
            for qa in range(n):
                for la in lib.label_structures(kinds, bonds_a, 1, qa, values=vals, cap=1, stride_seed=seed):
                    add("mpdm_from_mps", kinds=kinds, bonds_a=bonds_a, qntot=1, qnidx_a=qa, qn_a=la, kind="real")
    # long thin chains (11 sites = 12 bonds, bond dimension 1, hand-made labels of two different product configurations): anything that enumerates, sorts or
    # formats per-bond data is exercised beyond one digit
    def long_labels(occ, centre, n=11):
        tot = sum(occ)
        left = [sum(occ[:i]) for i in range(n + 1)]
        return [[[left[i] if i <= centre else tot - left[i]]] for i in range(n + 1)]
    kinds11 = tuple(["e"] * 11)
    b11 = tuple([1] * 12)
    occ_a = [0, 1, 0, 0, 1, 0, 0, 0, 1, 0, 0]
    occ_b = [1, 0, 0, 1, 0, 0, 0, 0, 0, 1, 0]
    for qa, qb in ((0, 10), (10, 10), (4, 7)):
        for op in ("add", "sub", "dot"):
            add(op, kinds=kinds11, bonds_a=b11, bonds_b=b11, qntot=3, qnidx_a=qa, qnidx_b=qb, qn_a=long_labels(occ_a, qa), qn_b=long_labels(occ_b, qb), kind="real")
        for op in ("scale", "conj", "copy"):
            add(op, kinds=kinds11, bonds_a=b11, qntot=3, qnidx_a=qa, qn_a=long_labels(occ_a, qa), kind="real")
        add("move_qnidx", kinds=kinds11, bonds_a=b11, qntot=3, qnidx_a=qa, qn_a=long_labels(occ_a, qa), kind="real", dst=(qa + 5) % 11)
    if tier == "quick":
        # complex entries and prefactors for every operation on the two-site structures (a missing or doubled conjugation is invisible with real numbers);
        # the thorough tier uses complex entries throughout
        seen = {}
        for inst in list(out):
            if len(inst["kinds"]) != 2 or inst.get("kind") != "real" or inst["op"] == "distance":
                continue      # (distance with complex prefactors: a square root of a complex quadratic form, minutes per instance - thorough tier only)
            k = (inst["op"], inst.get("qnidx_a"), inst.get("qnidx_b"), inst.get("qnidx_o"))
            if seen.get(inst["op"], 0) >= 3 or k in seen:
                continue
            seen[k] = 1
            seen[inst["op"]] = seen.get(inst["op"], 0) + 1
            d = dict(inst)
            d["kind"] = "cplx"
            d["label"] = inst["label"].replace("kind=real", "kind=cplx")
            out.append(d)
    return out


def _short(v):
    if v is None:
        return ""
    s = str(v).replace(" ", "")
    return s if len(s) < 40 else s[:37] + "..."


def make_harness(P):
    op = P["op"]

    def h(ctx):
        from renormalizer.mps import Mps, Mpo, MpDm
        model = lib.make_model(P["kinds"])
        kind = P.get("kind", "real")
        a = b = o = None
        if "qn_a" in P and P["qn_a"] is not None:
            a = lib.build_mps(ctx, "a", model, P["bonds_a"], [np.array(q) for q in P["qn_a"]], [P["qntot"]], P["qnidx_a"], kind=kind,
                              coeff="cplx" if kind == "cplx" else "real")
        if op in STATE2:
            b = lib.build_mps(ctx, "b", model, P["bonds_b"], [np.array(q) for q in P["qn_b"]], [P["qntot"]], P["qnidx_b"], kind=kind,
                              coeff="cplx" if kind == "cplx" else "real")
        if "qn_o" in P and P["qn_o"] is not None:
            o = lib.build_mpo(ctx, "o", model, P["bonds_o"], [np.array(q) for q in P["qn_o"]], [P["dq"]], P["qnidx_o"], kind=kind)
        if op in ("mpo_add", "mpo_dot", "apply_mpo"):
            b = lib.build_mpo(ctx, "p", model, P["bonds_b"], [np.array(q) for q in P["qn_b"]], [P["dq"]], P["qnidx_b"], kind=kind)
        da = lib.dense_of(a) if a is not None else None
        db = lib.dense_of(b) if b is not None else None
        do = lib.dense_of(o) if o is not None else None

        def meta(x):
            return None if x is None else (np.array(x.qntot, dtype=object).copy(), [np.array(q, dtype=object).copy() for q in x.qn], x.qnidx)
        ma, mb, mo = meta(a), meta(b), meta(o)

        def same_meta(x, m):
            # sector, bond labels and centre of an operand are what they were (an in-place update of a shared label array shows up here)
            return ctx.all([lib.ctx_eq_labels(ctx, x.qntot, m[0]), x.qnidx == m[2], len(x.qn) == len(m[1])]
                           + [lib.ctx_eq_labels(ctx, np.asarray(p_), np.asarray(q_)) for p_, q_ in zip(x.qn, m[1])])

        def same_inputs():
            cs = []
            if a is not None:
                cs.append(ctx.eq(lib.dense_of(a), da))
                if op != "move_qnidx":
                    cs.append(same_meta(a, ma))
            if b is not None:
                cs.append(ctx.eq(lib.dense_of(b), db))
                cs.append(same_meta(b, mb))
            if o is not None:
                cs.append(ctx.eq(lib.dense_of(o), do))
                cs.append(same_meta(o, mo))
            return ctx.all(cs)

        if op == "add" or op == "sub":
            c = a + b if op == "add" else a - b
            ref = da + db if op == "add" else da - db
            ctx.check(op + ": dense", ctx.eq(lib.dense_of(c), ref))
            ctx.check(op + ": todense", ctx.eq(c.todense() * c.coeff, ref))
            ctx.check(op + ": invariant", lib.inv_relation(ctx, c))
            ctx.check(op + ": qntot", lib.ctx_eq_labels(ctx, c.qntot, [P["qntot"]]))
            ctx.check(op + ": inputs", same_inputs())
        elif op == "dot":
            r = a.conj().dot(b)
            ref = lib.vdot(lib.dense_vec(lib.tensors(a)), lib.dense_vec(lib.tensors(b)))
            ctx.check("dot: <a|b> (tensor part, conj applied once)", ctx.eq(r, ref))
            r2 = a.dot(b)
            ref2 = sum((x * y for x, y in zip(lib.dense_vec(lib.tensors(a)), lib.dense_vec(lib.tensors(b)))), 0)
            ctx.check("dot: bilinear", ctx.eq(r2, ref2))
            ctx.check("dot: inputs", same_inputs())
        elif op == "distance":
            ca = a.coeff
            ta, tb = lib.dense_vec(lib.tensors(a)), lib.dense_vec(lib.tensors(b))
            ctx.lemma_sos(ta - tb)
            ctx.lemma_sos(da - db)
            ctx.lemma_sos(da)
            ctx.lemma_sos(ta)
            d = a.distance(b)
            folded = isinstance(a.coeff, int) and not isinstance(ca, int)
            diff = da - db
            ref2 = lib.vdot(diff, diff)
            ref2 = ref2.real if hasattr(ref2, "real") else ref2
            if folded:
                ctx.check("distance: square", ctx.eq(d * d, ref2))
            else:
                # prefactors compared equal: the code returns the distance of the tensor parts
                tdiff = ta - tb
                t2 = lib.vdot(tdiff, tdiff)
                ctx.check("distance: tensor-part square", ctx.eq(d * d, t2.real if hasattr(t2, "real") else t2))
                ctx.check("distance: square [equal prefactors]", ctx.eq(d * d, ref2))
            ctx.check("distance: nonneg", ctx.le(0, d))
            ctx.check("distance: inputs", same_inputs())
        elif op == "scale":
            v = ctx.cplx("val", 0.3 - 1.1j) if kind == "cplx" else ctx.real("val", -1.7)
            c = a.scale(v)
            ctx.check("scale: dense", ctx.eq(lib.dense_of(c), da * v))
            ctx.check("scale: invariant", lib.inv_relation(ctx, c))
            ctx.check("scale: inputs", same_inputs())
            c2 = a.copy().scale(v, inplace=True)
            ctx.check("scale inplace: dense", ctx.eq(lib.dense_of(c2), da * v))
        elif op == "conj":
            c = a.conj()
            ctx.check("conj: dense", ctx.eq(lib.dense_of(c), lib.conj(da)))
            ctx.check("conj: invariant", lib.inv_relation(ctx, c))
            ctx.check("conj: inputs", same_inputs())
        elif op == "copy":
            c = a.copy()
            ctx.check("copy: dense", ctx.eq(lib.dense_of(c), da))
            ctx.check("copy: invariant", lib.inv_relation(ctx, c))
            ctx.check("copy: meta", ctx.all([c.qnidx == a.qnidx, c.to_right == a.to_right, lib.ctx_eq_labels(ctx, c.qntot, a.qntot)]))
        elif op == "to_complex":
            c = a.to_complex()
            ctx.check("to_complex: dense", ctx.eq(lib.dense_of(c), da))
            ctx.check("to_complex: invariant", lib.inv_relation(ctx, c))
        elif op == "norm":
            t = lib.dense_vec(lib.tensors(a))
            ctx.lemma_sos(t)
            r = a.mp_norm
            ref2 = lib.vdot(t, t)
            ctx.check("mp_norm: square", ctx.eq(r * r, ref2.real if hasattr(ref2, "real") else ref2))
            ctx.check("mp_norm: nonneg", ctx.le(0, r))
            ctx.check("norm: inputs", same_inputs())
        elif op == "move_qnidx":
            a.move_qnidx(P["dst"])
            ctx.check("move_qnidx: invariant", lib.inv_relation(ctx, a))
            ctx.check("move_qnidx: centre", a.qnidx == P["dst"])
            ctx.check("move_qnidx: dense", ctx.eq(lib.dense_of(a), da))
        elif op == "apply_mps":
            c = o.apply(a)
            ref = do.dot(lib.dense_vec(lib.tensors(a))) * a.coeff
            ctx.check("apply: dense", ctx.eq(lib.dense_of(c), ref))
            ctx.check("apply: invariant", lib.inv_relation(ctx, c))
            ctx.check("apply: sector shifted by operator charge", lib.ctx_eq_labels(ctx, c.qntot, [P["qntot"] + P["dq"]]))
            ctx.check("apply: amplitude outside shifted sector is zero", lib.sector_relation(ctx, model, lib.dense_of(c), [P["qntot"] + P["dq"]]))
            ctx.check("apply: inputs", same_inputs())
            c2 = o @ a
            ctx.check("matmul: dense", ctx.eq(lib.dense_of(c2), ref))
        elif op == "apply_mpo":
            c = o.apply(b)
            ctx.check("apply mpo: dense", ctx.eq(lib.dense_of(c), do.dot(db)))
            ctx.check("apply mpo: invariant", lib.inv_relation(ctx, c))
            ctx.check("apply mpo: charge adds", lib.ctx_eq_labels(ctx, c.qntot, [2 * P["dq"]]))
            ctx.check("apply mpo: inputs", same_inputs())
        elif op == "conj_trans":
            c = o.conj_trans()
            ctx.check("conj_trans: dense", ctx.eq(lib.dense_of(c), lib.conj(do).T))
            ctx.check("conj_trans: invariant", lib.inv_relation(ctx, c))
            ctx.check("conj_trans: charge negated", lib.ctx_eq_labels(ctx, c.qntot, [-P["dq"]]))
            ctx.check("conj_trans: inputs", same_inputs())
        elif op == "mpo_add":
            c = o.add(b)
            ctx.check("mpo add: dense", ctx.eq(lib.dense_of(c), do + db))
            ctx.check("mpo add: invariant", lib.inv_relation(ctx, c))
            ctx.check("mpo add: inputs", same_inputs())
        elif op == "mpo_scale":
            v = ctx.real("val", -1.7)
            c = o.scale(v)
            ctx.check("mpo scale: dense", ctx.eq(lib.dense_of(c), do * v))
            ctx.check("mpo scale: invariant", lib.inv_relation(ctx, c))
            ctx.check("mpo scale: inputs", same_inputs())
        elif op == "mpo_dot":
            r = o.conj().dot(b)
            ref = lib.vdot(do.reshape(-1), db.reshape(-1))
            ctx.check("mpo dot: Tr(o^H p)", ctx.eq(r, ref))
        elif op == "mpdm_from_mps":
            d = MpDm.from_mps(a)
            vec = lib.dense_vec(lib.tensors(a))
            dm = lib.dense_op(lib.tensors(d))
            # from_mps places the state on the diagonal of every site
            n = len(vec)
            conds = []
            k = 0
            ctx.check("from_mps: diagonal holds the state", ctx.eq(np.array([dm[i, i] for i in range(n)], dtype=dm.dtype), vec))
            off = [dm[i, j] for i in range(n) for j in range(n) if i != j]
            ctx.check("from_mps: off-diagonal zero", ctx.eq(np.array(off, dtype=dm.dtype), np.zeros(len(off))))
            ctx.check("from_mps: coeff", ctx.eq(d.coeff, a.coeff))
            ctx.check("from_mps: invariant", lib.inv_relation(ctx, d))
            ctx.check("from_mps: todense", ctx.eq(d.todense(), dm))
        elif op in ("mpdm_apply", "mpo_apply_mpdm"):
            d = MpDm.from_mps(a)
            dm = lib.dense_op(lib.tensors(d))
            if op == "mpdm_apply":
                if P["dq"] != 0:
                    # right multiplication acts on the auxiliary index, which carries no label
                    pass
                c = d.apply(o)
                ref = dm.dot(do) * a.coeff
                shift = 0
            else:
                c = o.apply(d)
                ref = do.dot(dm) * a.coeff
                shift = P["dq"]
            ctx.check(op + ": dense", ctx.eq(lib.dense_of(c), ref))
            ctx.check(op + ": invariant", lib.inv_relation(ctx, c))
            ctx.check(op + ": sector", lib.ctx_eq_labels(ctx, c.qntot, [P["qntot"] + shift]))
            ctx.check(op + ": inputs", same_inputs())
        else:
            raise ValueError(op)
    return h


def main(tier, seed):
    from renormalizer.mps import mp as mpmod, mps as mpsmod, mpo as mpomod, mpdm as mpdmmod
    MP, M, O, D = mpmod.MatrixProduct, mpsmod.Mps, mpomod.Mpo, mpdmmod.MpDm
    return common.run_check(
        PROP, "checks.c03", tier, seed,
        explanation="One real arithmetic method per instance (add, sub, scale, conj, copy, to_complex, dot, distance, mp_norm, move_qnidx, Mpo.apply on "
                    "Mps/Mpo/MpDm, MpDm.apply, Mpo.conj_trans, Mpo.add/scale/dot, MpDm.from_mps/todense) executed on operands whose label-allowed tensor entries and "
                    "prefactors are z3 Reals. Enumerated: chains of 2-3 (thorough 4) sites, bond dimensions 1-2 (3), physical dimension 2-3, every position of the "
                    "quantum-number centre of each operand independently, a strided subset of all bond-label assignments over {0,1,2}, operator charges 0,+1(,-1). "
                    "Obligations: dense identity against an independent contraction, the label invariant on the result, sector shift, inputs unchanged.",
        assumptions=["real arithmetic: float64 rounding is outside the claim", "sizes beyond the enumerated structures are outside the claim",
                     "distance/mp_norm: np.sqrt modelled as the real square root (r>=0, r^2=x)",
                     "np.allclose/np.iscomplex on symbolic scalars are modelled as exact comparisons (both outcomes explored)",
                     "sequences of operations are covered through the inductive invariant (each method maps valid pre-states to valid post-states), not executed as sequences",
                     "quick tier uses real tensor entries; complex entries and prefactors in thorough"],
        trusted_base=["z3 5.1", "NumPy object-dtype loops", "SYMNUM normaliser (cross-checked by z3 on raw terms in the engine self-test)"],
        functions=[MP.add, MP.scale, MP.conj, MP.dot, MP.distance, MP.copy, MP.metacopy, MP.to_complex, MP.move_qnidx, M.add, M.distance, M.conj,
                   M.todense, O.apply, O.conj_trans, O.todense, D.apply, D.from_mps, D.todense])


if __name__ == "__main__":
    import argparse
    ap = argparse.ArgumentParser()
    ap.add_argument("--tier", default=os.environ.get("VERIF_TIER", "quick"))
    a = ap.parse_args()
    sys.exit(main(a.tier, int(os.environ.get("VERIF_SEED", "0"))))
