"""Harness-side helpers for the tree tensor network checks (C02, C11, C12): enumeration of rooted trees
with basis sets distributed over the nodes (dummy nodes included), construction of TTNS with symbolic
tensors, and independent recursive dense contractions."""
import itertools
import numpy as np

from symnum import sym as S, expr as X
from checks import lib


def ensure_print_tree():
    import sys
    import types
    if "print_tree" not in sys.modules:
        m = types.ModuleType("print_tree")
        m.print_tree = type("print_tree", (), {"__init__": lambda self, *a, **k: setattr(self, "rows", [])})
        sys.modules["print_tree"] = m


def parent_arrays(n):
    """all recursive trees on n nodes: parent[i] < i (node 0 is the root); children ordered by index"""
    if n == 1:
        return [()]
    return [tuple(p) for p in itertools.product(*[range(i) for i in range(1, n)])]


def contents(n, k, maxper=2):
    """all ways to put k basis sets on n nodes, at most `maxper` per node (0 = dummy node)"""
    return [c for c in itertools.product(range(maxper + 1), repeat=n) if sum(c) == k]


def structures(nmax, kinds_pool, tier, seed=0, cap=None):
    """(parents, counts) pairs; kinds are assigned in preorder"""
    out = []
    k = len(kinds_pool)
    for n in range(1, nmax + 1):
        for par in parent_arrays(n):
            for cnt in contents(n, k):
                # a dummy leaf carries nothing at all: allowed, but skip trees consisting only of dummies below a node count
                out.append((par, cnt))
    if cap and len(out) > cap:
        step = len(out) / float(cap)
        out = [out[int(i * step + seed) % len(out)] for i in range(cap)]
    return out


def build_basis_tree(parents, counts, kinds):
    """BasisTree with node i carrying counts[i] basis sets taken from `kinds` in preorder"""
    ensure_print_tree()
    from renormalizer.tn import BasisTree, TreeNodeBasis
    from checks.c01 import basis_for
    it = iter(range(len(kinds)))
    nodes = []
    for i, c in enumerate(counts):
        bs = []
        for _ in range(c):
            j = next(it)
            bs.append(basis_for(kinds[j], j))
        nodes.append(TreeNodeBasis(bs))
    for i, p in enumerate(parents):
        nodes[p].add_child(nodes[i + 1])
    return BasisTree(nodes[0]), nodes


def nondummy_basis(tree):
    from renormalizer.model.basis import BasisDummy
    return [b for b in tree.basis_list if not isinstance(b, BasisDummy)]


# ------------------------------------------------------------------ states
def build_ttns(ctx, name, tree, bond, kind="real", qn_zero=True):
    """TTNS over `tree` with fully symbolic tensors; every bond to the parent has dimension `bond` (root: 1)"""
    from renormalizer.tn import TTNS
    from renormalizer.tn.node import TreeNodeTensor, copy_connection
    nodes = []
    for i, bn in enumerate(tree.node_list):
        shape = [bond] * len(bn.children) + [b.nbas for b in bn.basis_sets] + [bond if bn.parent is not None else 1]
        t = ctx.array("%s%d" % (name, i), tuple(shape), kind)
        qn = np.zeros((shape[-1], tree.qn_size), dtype=int)
        nodes.append(TreeNodeTensor(t, qn))
    root = copy_connection(tree.node_list, nodes)
    return TTNS(tree, root=root)


def _dense(tn, operator):
    """independent contraction: pairwise np.einsum over explicit integer labels (bond of node i to its parent = label i;
    physical legs get fresh labels), nodes taken in preorder"""
    nodes = tn.node_list
    idx = {id(n): i for i, n in enumerate(nodes)}
    nxt = [len(nodes)]
    phys_up, phys_down = [], []

    def labels(n):
        i = idx[id(n)]
        t = np.asarray(n.tensor)
        nch = len(n.children)
        lab = [idx[id(c)] for c in n.children]
        nph = t.ndim - nch - 1
        if operator:
            for _ in range(nph // 2):
                u, d = nxt[0], nxt[0] + 1
                nxt[0] += 2
                lab += [u, d]
                phys_up.append((u, t.shape[len(lab) - 2]))
                phys_down.append((d, t.shape[len(lab) - 1]))
        else:
            for _ in range(nph):
                u = nxt[0]
                nxt[0] += 1
                lab.append(u)
                phys_up.append((u, t.shape[len(lab) - 1]))
        lab.append(i)
        return t, lab
    res, rl = labels(nodes[0])
    for n in nodes[1:]:
        t, tl = labels(n)
        shared = idx[id(n)]
        out = [x for x in rl if x != shared] + [x for x in tl if x != shared]
        res = np.einsum(res, rl, t, tl, out)
        rl = out
    # root's own parent label (0) has dimension 1
    order = [u for u, _ in phys_up] + [d for d, _ in phys_down]
    res = np.einsum(res, rl, order)
    if operator:
        dim = int(np.prod([s_ for _, s_ in phys_up])) if phys_up else 1
        return res.reshape(dim, dim)
    return res.reshape(-1)


def dense_ttns(ttns):
    """dense vector; axes = basis sets in preorder (node by node), dummy basis sets are size-1 axes"""
    return _dense(ttns, False)


def dense_ttno(ttno):
    """dense matrix over the basis sets in preorder (dummy ones are size-1 axes)"""
    return _dense(ttno, True)


def dense_terms(ctx, basis_list, table_ops):
    """sum_k f_k (x) local matrices over `basis_list` (BasisSet objects, dummy ones skipped by the caller); table_ops = list of (factor, {basis index: matrix})"""
    dims = [b.nbas for b in basis_list]
    D = int(np.prod(dims))
    from checks.c16 import zeros_exact
    tot = zeros_exact(ctx, (D, D))
    for f, mats in table_ops:
        k = np.ones((1, 1))
        for i, d in enumerate(dims):
            k = np.kron(k, mats.get(i, np.eye(d)))
        tot = tot + k * f
    return tot


# ------------------------------------------------------------------ labelled states
def subtree_labels(tree, qntot, dup=1):
    """per basis node (same order as tree.node_list): the list of labels of its bond to the parent = every electron count the subtree
    can hold (<= qntot), each repeated `dup` times (blocks of size > 1); the root carries [qntot]"""
    labs = {}
    for bn in tree.postorder_list():
        tots = {0}
        for c in bn.children:
            tots = {t + int(l) for t in tots for l in set(labs[c])}
        for b in bn.basis_sets:
            sig = sorted(set(int(np.asarray(q).reshape(-1)[0]) for q in np.asarray(b.sigmaqn).reshape(b.nbas, -1)))
            tots = {t + q for t in tots for q in sig}
        tots = sorted(t for t in tots if t <= qntot)
        labs[bn] = [qntot] if bn.parent is None else [t for t in tots for _ in range(dup)]
    return [labs[bn] for bn in tree.node_list]


def build_labelled_ttns(ctx, name, tree, qntot, dup=1, kind="real"):
    """TTNS in the sector qntot (one label component): symbols on the entries the labels allow (children + physical = parent), exact zeros elsewhere"""
    from renormalizer.tn import TTNS
    from renormalizer.tn.node import TreeNodeTensor, copy_connection
    from checks import lib
    labs = subtree_labels(tree, qntot, dup)
    idx = {id(bn): i for i, bn in enumerate(tree.node_list)}
    nodes = []
    for i, bn in enumerate(tree.node_list):
        chl = [labs[idx[id(c)]] for c in bn.children]
        sig = [[int(np.asarray(q).reshape(-1)[0]) for q in np.asarray(b.sigmaqn).reshape(b.nbas, -1)] for b in bn.basis_sets]
        shape = [len(x) for x in chl] + [len(x) for x in sig] + [len(labs[i])]
        mask = np.zeros(shape, dtype=bool)
        for ix in np.ndindex(*shape):
            tot = sum(chl[k][ix[k]] for k in range(len(chl))) + sum(sig[k][ix[len(chl) + k]] for k in range(len(sig)))
            mask[ix] = (tot == labs[i][ix[-1]])
        t = lib.masked_array(ctx, "%s%d" % (name, i), tuple(shape), kind, mask)
        nodes.append(TreeNodeTensor(t, np.array(labs[i], dtype=int).reshape(-1, 1)))
    root = copy_connection(tree.node_list, nodes)
    s = TTNS(tree, root=root)
    return s
