"""C05 - truncation respects the bond limit and the discarded-weight identity.

The real `compress()` runs on canonical Mps / Mpo chains (canonical form enters as the explored branch
of the code's own `check_*_canonical` assertion) with symbolic tensors, LAPACK by contract, and each
truncation criterion.  A call-through spy on svd_qn records the (U, sigma, V) each step produced, so the
obligations can say: the new bond keeps exactly the m leading triples with sigma absorbed on the
advertised side, m obeys the limit of the RIGHT bond index for either sweep direction, the threshold
criterion keeps exactly {k : sigma_k/|sigma| > thr}, and (one bond, canonical state) the squared distance
to the original equals the sum of the discarded sigma^2 and the norm does not grow.
"""
import os
import sys

VERIF = os.path.dirname(os.path.dirname(os.path.abspath(__file__)))
sys.path.insert(0, VERIF)
REPO = os.environ.get("VERIF_REPO", "/repo")
sys.path.insert(0, REPO)

import numpy as np  # noqa: E402
from checks import common, lib, chainsteps as cs  # noqa: E402

PROP = "C05"
RUN_OPTS = dict(max_paths=4000, budget_s=40.0)


def instances(tier, seed):
    out = []

    def add(**kw):
        kw["label"] = "compress %s %s bonds=%s qn=%s qt=%s right=%s crit=%s lim=%s" % (
            kw["cls"], "".join(kw["kinds"]), kw["bonds"], str([[r[0] for r in q] for q in kw["qn"]]).replace(" ", ""), kw["qntot"], kw["to_right"], kw["crit"], kw.get("lim"))
        kw["key"] = "compress/%s/%s" % (kw["cls"], kw["crit"])
        kw["op"] = "compress"
        out.append(kw)

    structs = [("mps", ("e", "e"), (1, 2, 1)), ("mps", ("e", "w"), (1, 2, 1)), ("mps", ("w", "e"), (1, 2, 1)), ("mpo", ("e", "e"), (1, 2, 1)),
               ("mps", ("e", "e", "e"), (1, 2, 2, 1))]
    if tier == "thorough":
        structs += [("mps", ("e", "v"), (1, 3, 1)), ("mps", ("v", "e"), (1, 3, 1)), ("mps", ("e", "e", "e"), (1, 2, 3, 1)), ("mpo", ("e", "e", "e"), (1, 2, 2, 1)),
                    ("mps", ("e", "e", "e", "e"), (1, 2, 2, 2, 1))]
    cap = 3 if tier == "quick" else 6
    for cls, kinds, bonds in structs:
        n = len(kinds)
        for to_right in (True, False):
            qnidx = 0 if to_right else n - 1
            for qntot in ((1,) if cls == "mps" else (0,)):
                cands = [q for q in cs.label_sets(cls, kinds, bonds, qntot, qnidx, None, seed) if cs.canonicalisable(cls, kinds, bonds, q, qntot, qnidx)]
                if len(cands) > cap:
                    step = len(cands) / float(cap)
                    cands = [cands[int(k * step + seed) % len(cands)] for k in range(cap)]
                for qn in cands:
                    # per-bond limits chosen so that a wrong bond index picks a different limit
                    lims = [[9, 1, 9][: n + 1] if n == 2 else [9, 1, 2, 9], [9, 2, 9][: n + 1] if n == 2 else [9, 2, 1, 9]]
                    for lim in lims:
                        add(cls=cls, kinds=kinds, bonds=bonds, qn=qn, qntot=qntot, qnidx=qnidx, to_right=to_right, crit="fixed", lim=lim)
                        add(cls=cls, kinds=kinds, bonds=bonds, qn=qn, qntot=qntot, qnidx=qnidx, to_right=to_right, crit="temp_list", lim=lim)
                    add(cls=cls, kinds=kinds, bonds=bonds, qn=qn, qntot=qntot, qnidx=qnidx, to_right=to_right, crit="temp_scalar", lim=1)
                    add(cls=cls, kinds=kinds, bonds=bonds, qn=qn, qntot=qntot, qnidx=qnidx, to_right=to_right, crit="threshold", lim=None)
                    add(cls=cls, kinds=kinds, bonds=bonds, qn=qn, qntot=qntot, qnidx=qnidx, to_right=to_right, crit="both", lim=lims[1])
    # tree tensor network states: the real TTNS.compress() after the real canonicalise() (QR / SVD by contract)
    trees = [(("s", "s"), (0,), (1, 1), None), (("s", "s", "s"), (0, 0), (1, 1, 1), None), (("s", "s", "s"), (0, 1), (1, 1, 1), None), (("s", "s"), (0, 0), (0, 1, 1), None),
             (("e", "e", "e"), (0, 0), (1, 1, 1), 1), (("e", "e", "e"), (0, 1), (1, 1, 1), 1)]
    if tier == "thorough":
        trees += [(("s", "s", "s"), (0, 0, 1), (0, 1, 1, 1), None), (("s", "w", "s"), (0, 0), (1, 1, 1), None), (("e", "e", "e"), (0, 0), (1, 1, 1), 2), (("e", "e", "e"), (0, 0, 0), (0, 1, 1, 1), 1)]
    for kinds, par, cnt, qntot in trees:
        nn = len(cnt)
        lims = [[9] + [1, 2, 1][: nn - 1] + [9], [9] + [2, 1, 2][: nn - 1] + [9]]
        variants = [("fixed", lims[0]), ("fixed", lims[1]), ("temp_list", lims[0]), ("temp_list", lims[1]), ("temp_scalar", 1), ("threshold", None), ("both", lims[1]), ("fixed", [9] * (nn + 1))]
        for crit, lim in variants:
            if crit in ("threshold", "both") and nn > 2:
                continue          # symbolic threshold on two chained decompositions: not decided within the instance limit (900 s); two-node trees carry the criterion
            out.append(dict(op="tree", kinds=kinds, parents=list(par), counts=list(cnt), qntot=qntot, crit=crit, lim=lim,
                            label="tree compress %s parents=%s counts=%s sector=%s crit=%s lim=%s" % ("".join(kinds), list(par), list(cnt), qntot, crit, lim), key="tree/%s" % crit))
    for k in ((2, 3) if tier == "quick" else (2, 3, 4)):
        out.append(dict(op="config", k=k, label="CompressConfig.compute_m_trunc on %d symbolic singular values" % k, key="config"))
    return out


def make_harness(P):
    if P["op"] == "config":
        return make_config_harness(P)
    if P["op"] == "tree":
        return make_tree_harness(P)

    def h(ctx):
        from symnum import stubs
        from renormalizer.utils import CompressConfig, CompressCriteria
        model, mp = cs.build(ctx, P)
        n = mp.site_num
        crit = P["crit"]
        thr = None
        kw = {}
        if crit == "fixed":
            cfg = CompressConfig(CompressCriteria.fixed, max_bonddim=9)
            cfg.max_dims = np.array(P["lim"], dtype=int)
        elif crit in ("threshold", "both"):
            thr = ctx.real("thr", 0.4)
            ctx.assume(ctx.all([ctx.lt(0, thr), ctx.lt(thr, 1)]), "0<thr<1")
            cfg = CompressConfig(CompressCriteria.threshold if crit == "threshold" else CompressCriteria.both, threshold=thr, max_bonddim=9)
            if crit == "both":
                cfg.max_dims = np.array(P["lim"], dtype=int)
        else:
            cfg = CompressConfig(CompressCriteria.fixed, max_bonddim=9)
            kw["temp_m_trunc"] = list(P["lim"]) if crit == "temp_list" else P["lim"]
        mp.compress_config = cfg
        undo = None
        if ctx.symbolic:
            _, undo = stubs.lapack_contract(ctx, modules=("renormalizer.mps.svd_qn",))
        before_t = lib.tensors(mp)
        before_t = [np.array(t, dtype=t.dtype) for t in before_t]
        before = lib.dense_of(mp)
        bonds_before = list(mp.bond_dims)
        ms = []
        real_cmt = cfg.compute_m_trunc

        def cmt_spy(*a, **k):
            r = real_cmt(*a, **k)
            ms.append(r)
            return r
        cfg.compute_m_trunc = cmt_spy
        try:
            with cs.SvdSpy() as spy:
                try:
                    ret = mp.compress(**kw)
                except AssertionError:
                    if any(m == 0 for m in ms):
                        ctx.check("the criterion keeps at least one state (a bond of dimension 0 makes compress fail)", False)
                        return
                    raise
        finally:
            if undo:
                undo()
        to_right = P["to_right"]
        steps = list(range(0, n - 1)) if to_right else list(range(n - 1, 0, -1))
        ctx.check("one decomposition per bond swept", len(spy.records) == len(steps))
        if len(spy.records) != len(steps):
            return
        limit_of = None
        if crit in ("fixed", "both", "temp_list"):
            limit_of = lambda b: P["lim"][b]
        elif crit == "temp_scalar":
            limit_of = lambda b: P["lim"]
        conds_lim, conds_len, conds_sorted, conds_thr = [], [], [], []
        for idx, (a, k, res) in zip(steps, spy.records):
            u, su, nql, v, sv, nqr = res
            bond = idx + 1 if to_right else idx
            m = mp.bond_dims[bond]
            conds_len.append(1 <= m <= len(su))
            if limit_of is not None:
                conds_lim.append(m <= limit_of(bond))
            conds_sorted.append(ctx.all([ctx.le(su[i + 1], su[i]) for i in range(len(su) - 1)] + [ctx.le(0, su[-1])]))
            if crit in ("threshold", "both") and len(su) > 0:
                nrm2 = sum((x * x for x in su), 0)
                # kept_k  <=>  sigma_k > thr * |sigma|   (both sides >= 0:  sigma_k^2 > thr^2 |sigma|^2)
                cnt_conds = []
                for i in range(len(su)):
                    big = ctx.lt(thr * thr * nrm2, su[i] * su[i])
                    first_forced = (i == 0 and m == 1)      # at least one state is always kept
                    if crit == "threshold":
                        if i < m:
                            if not first_forced:
                                cnt_conds.append(big)
                        else:
                            cnt_conds.append(ctx.neg(big))
                    else:
                        lim = P["lim"][bond]
                        if i < m:
                            if not first_forced:
                                cnt_conds.append(big)
                        elif i < min(lim, len(su)):
                            cnt_conds.append(ctx.neg(big))
                conds_thr.append(ctx.all(cnt_conds))
        ctx.check("kept count between 1 and the number of singular values", all(conds_len))
        if conds_lim:
            ctx.check("bond dimension obeys the limit of its own bond (both sweep directions)", all(conds_lim))
        ctx.check("singular values handed to the truncation are non-negative and globally non-increasing", ctx.all(conds_sorted))
        if conds_thr:
            ctx.check("threshold criterion keeps exactly the singular values above thr*|sigma| (capped by the limit for 'both')", ctx.all(conds_thr))
        ctx.check("no bond grew", all(mp.bond_dims[b] <= bonds_before[b] for b in range(n + 1)))
        ctx.check("invariant holds after truncation", lib.inv_relation(ctx, mp))
        ctx.check("direction switched, centre at the far end", mp.to_right == (not to_right) and mp.qnidx == (n - 1 if to_right else 0))
        # first step: the updated pair equals the m leading triples, sigma on the advertised side
        idx = steps[0]
        u, su, nql, v, sv, nqr = spy.records[0][2]
        bond = idx + 1 if to_right else idx
        m = mp.bond_dims[bond] if n == 2 else None
        if n == 2:
            u = np.asarray(u)
            v = np.asarray(v)
            s = np.asarray(su)
            A_other = before_t[1] if to_right else before_t[0]
            sig_on_v = (not mp.is_mpo and to_right) or (mp.is_mpo and not to_right)
            um = u[:, :m] * (1 if sig_on_v else s[:m])
            vm = (v[:, :m] * (s[:m] if sig_on_v else 1)).T
            if to_right:
                exp_site = um.reshape(mp[0].shape)
                exp_nb = np.tensordot(vm, A_other, axes=1)
                ctx.check("kept exactly the m leading (u, sigma, v) triples", ctx.all([ctx.eq(mp[0].array, exp_site), ctx.eq(mp[1].array, exp_nb)]))
            else:
                exp_site = vm.reshape(mp[1].shape)
                exp_nb = np.tensordot(A_other, um, axes=1)
                ctx.check("kept exactly the m leading (u, sigma, v) triples", ctx.all([ctx.eq(mp[1].array, exp_site), ctx.eq(mp[0].array, exp_nb)]))
            # discarded weight identity (canonical two-site state, tensor part)
            if not mp.is_mpo:
                t_before = lib.dense_vec(before_t)
                t_after = lib.dense_vec(lib.tensors(mp))
                diff = t_before - t_after
                d2 = sum((x * x for x in diff), 0)
                disc = sum((x * x for x in s[m:]), 0)
                ctx.check("squared distance to the original equals the discarded weight", ctx.eq(d2, disc))
                n_after = sum((x * x for x in t_after), 0)
                n_before = sum((x * x for x in t_before), 0)
                ctx.check("norm does not exceed the original", ctx.le(n_after, n_before))
                if max(P["bonds"]) <= 2:     # bond dimension 3: the rewriting tactic does not close this one (unknown at 60 s); distance and monotonicity above are closed
                    ctx.check("kept weight is the norm of the result", ctx.eq(n_after, sum((x * x for x in s[:m]), 0)))
            if m == len(s):
                ctx.check("nothing discarded => object unchanged", ctx.eq(lib.dense_of(mp), before))
    return h


def make_tree_harness(P):
    def h(ctx):
        from symnum import stubs
        from checks import treelib
        from checks.c11 import tree_inv
        treelib.ensure_print_tree()
        from renormalizer.tn import tree as trmod
        from renormalizer.utils import CompressConfig, CompressCriteria
        tree, nodes = treelib.build_basis_tree(P["parents"], P["counts"], tuple(P["kinds"]))
        if P["qntot"] is None:
            a = treelib.build_ttns(ctx, "a", tree, 2)
        else:
            a = treelib.build_labelled_ttns(ctx, "a", tree, P["qntot"], dup=2)
        nn = len(a.node_list)
        crit = P["crit"]
        thr = None
        kw = {}
        if crit == "fixed":
            cfg = CompressConfig(CompressCriteria.fixed, max_bonddim=9)
            cfg.max_dims = np.array(P["lim"], dtype=int)
        elif crit in ("threshold", "both"):
            thr = ctx.real("thr", 0.4)
            ctx.assume(ctx.all([ctx.lt(0, thr), ctx.lt(thr, 1)]), "0<thr<1")
            cfg = CompressConfig(CompressCriteria.threshold if crit == "threshold" else CompressCriteria.both, threshold=thr, max_bonddim=9)
            if crit == "both":
                cfg.max_dims = np.array(P["lim"], dtype=int)
        else:
            cfg = CompressConfig(CompressCriteria.fixed, max_bonddim=9)
            kw["temp_m_trunc"] = list(P["lim"]) if crit == "temp_list" else P["lim"]
        a.compress_config = cfg
        undo = None
        if ctx.symbolic:
            _, undo = stubs.lapack_contract(ctx, modules=("renormalizer.mps.svd_qn",))
        records = []
        real_svd = trmod.svd_qn

        def spy(*aa, **k):
            res = real_svd(*aa, **k)
            if not k.get("QR"):          # the sweep back to the parent goes through the same routine in its QR mode
                records.append(res)
            return res
        try:
            a.canonicalise()
            va = treelib.dense_ttns(a)
            bd_before = [n.tensor.shape[-1] for n in a.node_list]
            trmod.svd_qn = spy
            try:
                ret, s_array = a.compress(ret_s=True, **kw)
            finally:
                trmod.svd_qn = real_svd
        finally:
            if undo:
                undo()

        def visit(node):
            for c in node.children:
                yield c
                if c.children:
                    for x in visit(c):
                        yield x
        order = list(visit(a.root))
        ctx.check("tree: one truncating decomposition per bond", len(records) == len(order) == nn - 1)
        if len(records) != len(order):
            return
        ctx.check("tree: compress returns the state itself", ret is a)
        limit_of = None
        if crit in ("fixed", "both", "temp_list"):
            limit_of = lambda i: P["lim"][i]
        elif crit == "temp_scalar":
            limit_of = lambda i: P["lim"]
        conds_lim, conds_len, conds_sorted, conds_thr, conds_s = [], [], [], [], []
        discarded = 0
        for child, res in zip(order, records):
            su = np.asarray(res[1])
            i = a.node_idx[child]
            m = child.tensor.shape[-1]
            conds_len.append(1 <= m <= len(su))
            if limit_of is not None:
                conds_lim.append(m <= limit_of(i))
                if crit in ("fixed", "temp_list", "temp_scalar") and not child.children:
                    # (the bond of an inner node can shrink further when the centre is swept back through it: only the limit is an obligation there)
                    conds_lim.append(m == min(limit_of(i), len(su)))
            conds_sorted.append(ctx.all([ctx.le(su[k + 1], su[k]) for k in range(len(su) - 1)] + [ctx.le(0, su[-1])]))
            row = np.asarray(s_array[i])
            conds_s.append(ctx.all([ctx.eq(row[k], su[k]) for k in range(len(su))] + [ctx.eq(row[k], 0) for k in range(len(su), len(row))]))
            discarded = discarded + sum((x * x for x in su[m:]), 0)
            if crit in ("threshold", "both"):
                nrm2 = sum((x * x for x in su), 0)
                cc = []
                for k in range(len(su)):
                    big = ctx.lt(thr * thr * nrm2, su[k] * su[k])
                    first_forced = (k == 0 and m == 1)
                    cap = len(su) if crit == "threshold" else min(P["lim"][i], len(su))
                    if k < m:
                        if not first_forced:
                            cc.append(big)
                    elif k < cap:
                        cc.append(ctx.neg(big))
                conds_thr.append(ctx.all(cc))
        ctx.check("tree: kept count between 1 and the number of singular values", all(conds_len))
        if conds_lim:
            ctx.check("tree: every bond obeys the limit of its own node (fixed, leaf bond: keeps exactly min(limit, rank))", all(conds_lim))
        ctx.check("tree: singular values handed to the truncation are non-negative and non-increasing", ctx.all(conds_sorted))
        if conds_thr:
            ctx.check("tree: threshold criterion keeps exactly the singular values above thr*|sigma| (capped by the limit for 'both')", ctx.all(conds_thr))
        ctx.check("tree: ret_s returns, per node, the singular values of its bond before truncation (zero padded; root: [1])",
                  ctx.all(conds_s + [ctx.eq(np.asarray(s_array[0])[0], 1)]))
        ctx.check("tree: no bond grew", all(n.tensor.shape[-1] <= b for n, b in zip(a.node_list, bd_before)))
        ctx.check("tree: labels describe the truncated tensors", tree_inv(ctx, a))
        ctx.check("tree: label arrays match the bond dimensions", all(len(n.qn) == n.tensor.shape[-1] for n in a.node_list))
        vb = treelib.dense_ttns(a)
        nothing = all(child.tensor.shape[-1] == len(np.asarray(res[1])) for child, res in zip(order, records))
        if nothing:
            ctx.check("tree: nothing discarded => state unchanged", ctx.eq(vb, va))
        if nn == 2:
            diff = va - vb
            d2 = sum((x * x for x in diff), 0)
            ctx.check("tree: squared distance to the original equals the discarded weight (one bond, canonical state)", ctx.eq(d2, discarded))
            n_after = sum((x * x for x in vb), 0)
            n_before = sum((x * x for x in va), 0)
            ctx.check("tree: norm does not exceed the original", ctx.le(n_after, n_before))
    return h


def make_config_harness(P):
    k = P["k"]

    def h(ctx):
        from renormalizer.utils import CompressConfig, CompressCriteria
        sig = ctx.array("s", (k,), "real")
        for i in range(k):
            ctx.assume(ctx.le(0, sig[i]), "sigma>=0")
            if i:
                ctx.assume(ctx.le(sig[i], sig[i - 1]), "sigma sorted")
        ctx.assume(ctx.lt(0, sig[0]), "sigma not all zero")
        thr = ctx.real("thr", 0.3)
        ctx.assume(ctx.all([ctx.lt(0, thr), ctx.lt(thr, 1)]), "0<thr<1")
        nrm2 = sum((x * x for x in sig), 0)
        for crit in (CompressCriteria.threshold, CompressCriteria.fixed, CompressCriteria.both):
            for lims in ([5, 1, 2, 5], [5, 2, 1, 5]):
                for idx, left in ((0, True), (1, True), (1, False), (2, False)):
                    cfg = CompressConfig(crit, threshold=thr, max_bonddim=5)
                    cfg.max_dims = np.array(lims, dtype=int)
                    m = cfg.compute_m_trunc(sig, idx, left)
                    bond = idx + 1 if left else idx
                    name = "compute_m_trunc[%s]" % crit.value
                    ctx.check(name + ": plain int within 1..len(sigma)", isinstance(m, (int, np.integer)) and 1 <= m <= k)
                    if crit is not CompressCriteria.threshold:
                        ctx.check(name + ": obeys the limit of bond idx+1 (sweeping right) / idx (sweeping left)", m <= lims[bond])
                    if crit is CompressCriteria.fixed:
                        ctx.check(name + ": fixed keeps min(limit, len)", m == min(lims[bond], k))
                    else:
                        cap = k if crit is CompressCriteria.threshold else min(lims[bond], k)
                        conds = []
                        for i in range(k):
                            big = ctx.lt(thr * thr * nrm2, sig[i] * sig[i])
                            if i < m:
                                if not (i == 0 and m == 1):
                                    conds.append(big)
                            elif i < cap:
                                conds.append(ctx.neg(big))
                        ctx.check(name + ": keeps exactly the values above thr*|sigma|", ctx.all(conds))
        # at least the largest singular value survives whenever thr < 1/sqrt(k)
        cfg = CompressConfig(CompressCriteria.threshold, threshold=thr)
        m = cfg.compute_m_trunc(sig, 0, True)
        ctx.check("threshold below 1/sqrt(len) keeps at least one state", ctx.implies(ctx.lt(thr * thr * k, 1), m >= 1))
        ctx.check("threshold criterion keeps at least one state for every thr in (0,1)", m >= 1)
    return h


def main(tier, seed):
    from renormalizer.mps import mp as mpmod, svd_qn as sq
    from renormalizer.utils import configs
    MP, CC = mpmod.MatrixProduct, configs.CompressConfig
    from checks import treelib
    treelib.ensure_print_tree()
    from renormalizer.tn import tree as trmod
    TT = trmod.TTNS
    return common.run_check(
        PROP, "checks.c05", tier, seed,
        explanation="Real compress() with each criterion (fixed per-bond limits, threshold with symbolic thr in (0,1), both, temp_m_trunc scalar and per-bond list) on canonical "
                    "2- and 3-site Mps/Mpo chains with symbolic tensors and LAPACK by contract, both sweep directions, per-bond limits chosen so that a wrong bond index is "
                    "visible; plus CompressConfig.compute_m_trunc on 2-3 (4) symbolic sorted singular values for every (idx, direction). Obligations: limit of the right bond, "
                    "1 <= m <= len(sigma), sorted non-negative sigma, exact threshold set, the updated pair equals the m leading triples with sigma on the advertised side, "
                    "squared distance = discarded weight and norm non-increasing for one bond of a canonical state, invariant, direction switch. Tree states: the real "
                    "TTNS.compress() after the real canonicalise() on 2-3 (4) node trees (chain, star, dummy root; unlabelled bond 2 and labelled electron trees with blocks of "
                    "size 2), per-node limits pairwise different, all criteria on two-node trees (fixed / temporary limits on larger ones): every bond obeys the limit of its own "
                    "node, kept count, sorted singular values, exact threshold set, ret_s rows, labels valid, nothing discarded => unchanged, two nodes: distance identity and norm.",
        assumptions=["LAPACK by contract", "the multi-bond bound sqrt(sum of discarded weights) is the textbook consequence of the one-bond identity for canonical states and is "
                     "not re-derived (DESIGN.md C05 Out)", "trees: the symbolic-threshold criteria only on two-node trees (two chained decompositions do not finish within 900 s); the distance identity only for the one-bond tree", "real-valued tensors",
                     "threshold comparison sigma/|sigma| > thr is stated as sigma^2 > thr^2 |sigma|^2 (both sides non-negative)"],
        trusted_base=["z3 5.1", "NumPy object loops", "LAPACK contract stubs"],
        functions=[MP.compress, MP._update_ms, TT.compress, TT.compress_node, trmod.compress_recursion, trmod.truncate_tensors, CC.compute_m_trunc, CC._threshold_m_trunc, CC._fixed_m_trunc, CC.set_bonddim, sq.svd_qn])


if __name__ == "__main__":
    import argparse
    ap = argparse.ArgumentParser()
    ap.add_argument("--tier", default=os.environ.get("VERIF_TIER", "quick"))
    a = ap.parse_args()
    sys.exit(main(a.tier, int(os.environ.get("VERIF_SEED", "0"))))
