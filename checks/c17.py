"""C17 - fermionic Hamiltonians and on-the-fly site exchange.

 (a) qc: the real int_to_h + qc_model (+ Mpo construction) run on SYMBOLIC one- and two-electron integrals
     carrying the permutation symmetry of real orbitals (every symmetry class one solver variable, optional
     vanishing classes): the dense operator equals the second-quantised Hamiltonian assembled from an
     independent occupation-number representation of anticommuting operators (sign = parity of the occupied
     orbitals in front), from the spin-orbital arrays AND from the textbook spatial-orbital formula; it is
     Hermitian and commutes with the alpha and beta electron numbers; every term carries balanced labels.
 (b) opswap: the real Mpo.try_swap_site (swap_site, table_row_swapped_jw, ...) on operators with symbolic
     factors for every neighbouring pair and short swap sequences: without the Jordan-Wigner correction the
     dense operator is P H P^T (P = exchange of the two sites), with it it is F H F^T (F = P * sign(-1 when
     both sites are occupied)), i.e. the same fermionic operator in the new orbital order; labels stay valid.
 (c) mpsswap: the real two-site update of MatrixProduct._update_mps with on-the-fly swapping on a symbolic
     two-site coefficient tensor, the swap DECISION being a solver variable (entropy routine stubbed by
     arbitrary values, LAPACK by contract): retained -> the state is the coefficient tensor in place; swapped ->
     the state is P (or F) applied to it, the model lists the two basis sets in exchanged order and the label
     invariant holds w.r.t. the new order.
 (b) and (c) with the same unitary give <psi'|H'|psi'> = <psi|H|psi> and an unchanged spectrum.
"""
import itertools
import os
import sys

VERIF = os.path.dirname(os.path.dirname(os.path.abspath(__file__)))
sys.path.insert(0, VERIF)
REPO = os.environ.get("VERIF_REPO", "/repo")
sys.path.insert(0, REPO)

import numpy as np  # noqa: E402
from checks import common, lib  # noqa: E402
from checks import c01  # noqa: E402
from checks.c16 import zeros_exact, dense_of_terms  # noqa: E402

PROP = "C17"
RUN_OPTS = dict(max_paths=400, budget_s=60.0)


# ------------------------------------------------------------------ instances
def instances(tier, seed):
    out = []
    # (a) qc model
    for n in ((1, 2) if tier == "quick" else (1, 2, 3)):
        for stacked in (False, True):
            for cq in (True, False):
                masks = ["none", "h_offdiag", "exchange"] if n == 2 else ["none"]
                if n == 3 and (stacked or not cq):
                    continue
                for mask in masks:
                    for sym in (("8fold",) if tier == "quick" and not (n == 2 and mask == "none" and not stacked and cq) else ("8fold", "pair")):
                        out.append(dict(op="qc", n=n, stacked=stacked, conserve_qn=cq, mask=mask, sym=sym, mpo=("qr" if n == 1 else "Hopcroft-Karp" if n == 2 else None), mem_gb=(8 if n == 3 else 3.5),
                                        label="qc_model n=%d spatial orbitals stacked=%s conserve_qn=%s vanishing=%s symmetry=%s" % (n, stacked, cq, mask, sym),
                                        key="qc/%s" % ("stacked" if stacked else "flat")))
    # (b) operator-side swap
    for jw in (False, True):
        for model in ("qc1", "qc2", "qc2full", "spin_long", "spin_short"):
            nsite = {"qc1": 2, "qc2": 4, "qc2full": 4, "spin_long": 3, "spin_short": 3}[model]
            if model == "qc2full":
                # all integral classes of two spatial orbitals (three-index (pq|rr) and exchange types included): single swaps only
                for i in range(nsite - 1):
                    if not jw and i == 1:
                        continue      # check_swap_consistency on ~100 symbolic factors exhausts the path budget (400 paths, 350 s): outside the bound
                    out.append(dict(op="opswap", model=model, jw=jw, swaps=[i], label="try_swap_site %s jw=%s sites %d<->%d" % (model, jw, i, i + 1), key="opswap/%s/%s" % ("jw" if jw else "plain", model)))
                continue
            for i in range(nsite - 1):
                out.append(dict(op="opswap", model=model, jw=jw, swaps=[i], label="try_swap_site %s jw=%s sites %d<->%d" % (model, jw, i, i + 1), key="opswap/%s/%s" % ("jw" if jw else "plain", model)))
            if nsite >= 3:
                seqs = [[0, 1], [1, 0], [0, 0]] if tier == "quick" else [[0, 1], [1, 0], [0, 0], [1, 1], [0, 1, 0], [1, 0, 1]]
                if nsite == 4 and tier != "quick":
                    seqs += [[2, 1], [1, 2], [0, 2], [2, 1, 0]]
                for sq in seqs:
                    if len(sq) >= 3 and not jw and model.startswith("spin"):
                        continue      # three plain swaps with check_swap_consistency on every symbolic factor exhaust the path budget (outside the bound)
                    out.append(dict(op="opswap", model=model, jw=jw, swaps=sq, label="try_swap_site %s jw=%s sequence %s" % (model, jw, sq), key="opswap/%s/%s/sequence" % ("jw" if jw else "plain", model)))
    for model in ("vib",):
        for i in range(2):
            out.append(dict(op="opswap", model=model, jw=False, swaps=[i], label="try_swap_site %s jw=False sites %d<->%d" % (model, i, i + 1), key="opswap/plain/%s" % model))
        out.append(dict(op="opswap", model=model, jw=False, swaps=[0, 1], label="try_swap_site %s jw=False sequence [0, 1]" % model, key="opswap/plain/%s/sequence" % model))
    # concrete witnesses (fixed float integrals, ordinary float64 build, default algo='qr' operator): the pivoted-QR contract forks too much for the
    # solver-based runs above (they build the operator with Hopcroft-Karp), so swap sequences on QR-built operators are only witnessed, not decided
    for sq in ([1, 0], [0, 1], [2, 1, 0], [1, 2, 1]):
        for jw in (False, True):
            out.append(dict(op="opswap", model="qc2", jw=jw, swaps=sq, algo="qr", concrete=True,
                            label="[concrete witness] try_swap_site qc2 (Coulomb-type integrals, algo=qr operator) jw=%s sequence %s" % (jw, sq), key="opswap/qr-built/qc2/sequence %s" % sq))
    # (c) state-side swap
    for jw in (False, True):
        for to_right in (True, False):
            for pos in (0, 1):
                for occ in ((1, 1), (1, 0), (2, 1)) if jw or tier != "quick" else ((1, 1),):
                    out.append(dict(op="mpsswap", jw=jw, to_right=to_right, pos=pos, nelec=list(occ), kind="e",
                                    label="_update_mps with OFS jw=%s to_right=%s sites %d,%d sector %s" % (jw, to_right, pos, pos + 1, list(occ)), key="mpsswap/%s" % ("jw" if jw else "plain")))
    for to_right in (True, False):
        out.append(dict(op="mpsswap", jw=False, to_right=to_right, pos=0, nelec=None, kind="v",
                        label="_update_mps with OFS (spin + oscillator, no symmetry labels) to_right=%s" % to_right, key="mpsswap/plain/vib"))
    return out


# ------------------------------------------------------------------ integrals
def sym_integrals(ctx, n, sym, mask):
    """h (n, n) and eri (n, n, n, n) whose symmetry classes are single inputs.  sym = '8fold': (ij|kl)=(ji|kl)=(ij|lk)=(kl|ij);
    'pair': only (ij|kl) = (kl|ij) and h arbitrary (exactness does not need more).  mask: classes set to exact zero."""
    sym_mode = ctx.symbolic
    h = np.empty((n, n), dtype=object if sym_mode else float)
    e = np.empty((n, n, n, n), dtype=object if sym_mode else float)
    cache = {}
    cnt = [0]

    def val(name):
        if name not in cache:
            cnt[0] += 1
            d = ((cnt[0] * 37) % 23 - 11) / 7.0 + 0.05 * cnt[0]
            cache[name] = ctx.real(name, d)
        return cache[name]
    for i in range(n):
        for j in range(n):
            a, b = (i, j) if (sym == "pair" or i <= j) else (j, i)
            if mask == "h_offdiag" and a != b:
                h[i, j] = 0
            else:
                h[i, j] = val("h%d%d" % (a, b))
    for i, j, k, l in itertools.product(range(n), repeat=4):
        if sym == "8fold":
            p1 = (max(i, j), min(i, j))
            p2 = (max(k, l), min(k, l))
        else:
            p1, p2 = (i, j), (k, l)
        key = max(p1, p2) + min(p1, p2)
        if mask == "exchange" and not (p1[0] == p1[1] and p2[0] == p2[1]):
            e[i, j, k, l] = 0            # only Coulomb-type (ii|kk) classes survive
        else:
            e[i, j, k, l] = val("g%d%d%d%d" % key)
    return h, e, list(cache.values())


def fermion_ops(nso):
    """annihilation matrices in the occupation-number basis (orbital 0 = most significant bit, 1 = occupied):
    a_j |n> = (-1)^(n_0 + .. + n_{j-1}) |n with n_j = 0>   if n_j = 1"""
    D = 2 ** nso
    ops = []
    for j in range(nso):
        A = np.zeros((D, D))
        for s in range(D):
            bits = [(s >> (nso - 1 - k)) & 1 for k in range(nso)]
            if bits[j]:
                sign = (-1) ** sum(bits[:j])
                t = s & ~(1 << (nso - 1 - j))
                A[t, s] = sign
        ops.append(A)
    return ops


def _acc(ctx, D, items):
    tot = zeros_exact(ctx, (D, D))
    for f, M in items:
        tot = tot + M * f
    return tot


def _nonconst(x):
    from symnum import sym as S
    return isinstance(x, S.Sym) and x.const_value() is None


def h_qc_harness(ctx, P):
    from renormalizer.model import h_qc, Model, Op
    from renormalizer.mps import Mpo
    from renormalizer.mps import symbolic_mpo as sm
    from symnum import stubs
    n = P["n"]
    h, e, syms = sym_integrals(ctx, n, P["sym"], P["mask"])
    saved_np = h_qc.np
    if ctx.symbolic:
        h_qc.np = stubs.NpProxy()
        for v in syms:
            ctx.assume(ctx.all([ctx.le(abs(v), 4), abs(v) > 1e-6]), "1e-6 < |integral| <= 4")
    try:
        sh, aseri = h_qc.int_to_h(h, e)
        if ctx.symbolic:
            # generic integrals: an antisymmetrised combination that is not identically zero does not vanish (qc_model drops exact zeros)
            for x in list(np.asarray(aseri).ravel()) + list(np.asarray(sh).ravel()):
                if _nonconst(x):
                    ctx.assume(abs(x) > 1e-6, "antisymmetrised integral not in (0, 1e-6]")
        basis, terms = h_qc.qc_model(sh, aseri, stacked=P["stacked"], conserve_qn=P["conserve_qn"])
    finally:
        h_qc.np = saved_np
    nso = 2 * n
    D = 2 ** nso
    A = fermion_ops(nso)
    Ad = [a.T for a in A]
    # reference 1: spin-orbital arrays
    items = []
    for p, q in itertools.product(range(nso), repeat=2):
        f = sh[p, q]
        if _nonconst(f) or f != 0:
            items.append((f, Ad[p].dot(A[q])))
    for p, q, r, s in itertools.product(range(nso), repeat=4):
        f = aseri[p, q, r, s]
        if _nonconst(f) or f != 0:
            items.append((f, Ad[p].dot(Ad[q]).dot(A[r]).dot(A[s])))
    ref1 = _acc(ctx, D, items)
    # reference 2: textbook formula from the spatial integrals  H = sum h_ij a+_is a_js + 1/2 sum (ij|kl) a+_is a+_kt a_lt a_js
    items = []
    for i, j in itertools.product(range(n), repeat=2):
        for sg in (0, 1):
            f = h[i, j]
            if _nonconst(f) or f != 0:
                items.append((f, Ad[2 * i + sg].dot(A[2 * j + sg])))
    half = 0.5
    for i, j, k, l in itertools.product(range(n), repeat=4):
        f = e[i, j, k, l]
        if not (_nonconst(f) or f != 0):
            continue
        for sg, tg in itertools.product((0, 1), repeat=2):
            M = Ad[2 * i + sg].dot(Ad[2 * k + tg]).dot(A[2 * l + tg]).dot(A[2 * j + sg])
            if np.any(M):
                items.append((f * half, M))
    ref2 = _acc(ctx, D, items)
    ctx.check("int_to_h: spin-orbital arrays reproduce the textbook spatial-orbital Hamiltonian", ctx.eq(ref1, ref2))
    flat = [t for grp in terms for t in grp] if P["stacked"] else list(terms)
    model = Model(basis, [])
    got = np.real(dense_of_terms(ctx, model, flat)) if not ctx.symbolic else _real_part(ctx, dense_of_terms(ctx, model, flat))
    ctx.check("qc_model terms (Jordan-Wigner strings, simplification signs) = second-quantised fermionic Hamiltonian", ctx.eq(got, ref2))
    if P["sym"] == "8fold":
        ctx.check("Hermitian for symmetric integrals", ctx.eq(got, got.T))
    na = sum(Ad[2 * i].dot(A[2 * i]) for i in range(n))
    nb = sum(Ad[2 * i + 1].dot(A[2 * i + 1]) for i in range(n))
    ctx.check("commutes with the number of alpha electrons", ctx.eq(got.dot(na), na.dot(got)))
    ctx.check("commutes with the number of beta electrons", ctx.eq(got.dot(nb), nb.dot(got)))
    if P["conserve_qn"]:
        ok = True
        for t in flat:
            tot = np.zeros(2, dtype=int)
            for q in t.qn_list:
                tot = tot + np.asarray(q)
            ok = ok and not np.any(tot)
        ctx.check("every term carries balanced (alpha, beta) labels", ok)
    if P["mpo"]:
        with _mpo_stubs(ctx):
            if P["stacked"]:
                tot = zeros_exact(ctx, (D, D))
                for grp in terms:
                    tot = tot + np.asarray(Mpo(Model(basis, grp), algo=P["mpo"]).todense())
                dense = tot
            else:
                dense = np.asarray(Mpo(Model(basis, terms), algo=P["mpo"]).todense())
        ctx.check("Mpo(qc model).todense() = second-quantised fermionic Hamiltonian", ctx.eq(dense, ref2))


def _real_part(ctx, a):
    out = np.empty(a.shape, dtype=object)
    for idx in np.ndindex(*a.shape):
        v = a[idx]
        out[idx] = v.real if hasattr(v, "real") else v
    return out


class _mpo_stubs:
    """the stubs C01 uses for symbolic factors in the operator construction (sparse proxy, pivoted-QR contract)"""

    def __init__(self, ctx):
        self.ctx = ctx

    def __enter__(self):
        from renormalizer.mps import symbolic_mpo as sm
        self.sm = sm
        self.saved = sm.scipy
        if self.ctx.symbolic:
            import scipy as real_scipy
            ctx = self.ctx

            class ScipyP:
                sparse = c01.SparseProxy(real_scipy.sparse)
                linalg = c01.PivotQR(ctx, real_scipy.linalg)

                def __getattr__(self, item):
                    return getattr(real_scipy, item)
            sm.scipy = ScipyP()
        return self

    def __exit__(self, *a):
        self.sm.scipy = self.saved
        return False


# ------------------------------------------------------------------ operator-side swap
def swap_unitaries(dims, i):
    """P (plain exchange of sites i, i+1) and the sign vector of the fermionic exchange (both occupied -> -1);
    returned as index permutation `perm` with (P v)[perm[s]] = v[s], the new dims and signs[s]"""
    n = len(dims)
    D = int(np.prod(dims))
    new_dims = list(dims)
    new_dims[i], new_dims[i + 1] = dims[i + 1], dims[i]
    perm = np.zeros(D, dtype=int)
    signs = np.ones(D, dtype=int)
    for s, idx in enumerate(np.ndindex(*dims)):
        idx2 = list(idx)
        idx2[i], idx2[i + 1] = idx[i + 1], idx[i]
        perm[s] = int(np.ravel_multi_index(idx2, new_dims))
        if idx[i] == 1 and idx[i + 1] == 1:
            signs[s] = -1
    return perm, signs, new_dims


def transform_op(H, perm, signs=None):
    D = H.shape[0]
    out = np.empty_like(H)
    for s in range(D):
        for t in range(D):
            v = H[s, t]
            if signs is not None and signs[s] * signs[t] == -1:
                v = v * -1
            out[perm[s], perm[t]] = v
    return out


def build_swap_model(ctx, name, extra=True):
    """(basis list, terms with symbolic factors, symbols)"""
    from renormalizer.model import Op, h_qc, basis as ba
    from symnum import stubs
    if name in ("qc1", "qc2", "qc2full"):
        n = 1 if name == "qc1" else 2
        h, e, syms = sym_integrals(ctx, n, "8fold", "exchange" if name == "qc2" else "none")
        saved = h_qc.np
        if ctx.symbolic:
            h_qc.np = stubs.NpProxy()
            for v in syms:
                ctx.assume(ctx.all([ctx.le(abs(v), 4), abs(v) > 1e-6]), "1e-6 < |integral| <= 4")
        try:
            sh, aseri = h_qc.int_to_h(h, e)
            if ctx.symbolic:
                for x in list(np.asarray(aseri).ravel()) + list(np.asarray(sh).ravel()):
                    if _nonconst(x):
                        ctx.assume(abs(x) > 1e-6, "antisymmetrised integral not in (0, 1e-6]")
            basis, terms = h_qc.qc_model(sh, aseri)
        finally:
            h_qc.np = saved
        return basis, terms, syms
    if name in ("spin_long", "spin_short"):
        p, m, z = ("sigma_+", "sigma_-", "sigma_z") if name == "spin_long" else ("+", "-", "Z")
        basis = [ba.BasisHalfSpin(i, sigmaqn=[0, 1]) for i in range(3)]
        fs = [ctx.real("f%d" % k, [0.7, -1.3, 0.45, 1.9, -0.6, 1.1, 0.35, -0.85, 1.45][k]) for k in range(9)]
        if ctx.symbolic:
            for f in fs:
                ctx.assume(ctx.all([ctx.le(abs(f), 4), abs(f) > 1e-6]), "1e-6 < |f| <= 4")
        # Jordan-Wigner images of hopping 0-1, 1-2, 0-2 (string through site 1) and densities: the operators the swap rule is written for
        terms = [
            Op("%s %s" % (m, p), [0, 1], fs[0], [1, -1]), Op("%s %s" % (p, m), [0, 1], fs[0], [-1, 1]),
            Op("%s %s" % (m, p), [1, 2], fs[1], [1, -1]), Op("%s %s" % (p, m), [1, 2], fs[1], [-1, 1]),
            Op("%s %s %s" % (m, z, p), [0, 1, 2], fs[2], [1, 0, -1]), Op("%s %s %s" % (p, z, m), [0, 1, 2], fs[2], [-1, 0, 1]),
            Op("%s %s" % (m, p), [0, 0], fs[3], [1, -1]), Op("%s %s" % (m, p), [2, 2], fs[4], [1, -1]),
            Op("%s %s %s %s" % (m, p, m, p), [0, 0, 1, 1], fs[5], [1, -1, 1, -1]),
        ]
        if extra:
            # density-assisted hopping n_r a+_p a_q (three-index integrals (pq|rr)): a number operator next to an odd-parity operator.  Only in the
            # Jordan-Wigner runs: with them the plain-swap runs (which execute check_swap_consistency on every factor) exhaust the path budget
            terms += [
                Op("%s %s %s %s" % (m, p, m, p), [0, 0, 1, 2], fs[6], [1, -1, 1, -1]), Op("%s %s %s %s" % (m, p, p, m), [0, 0, 1, 2], fs[6], [1, -1, -1, 1]),
                Op("%s %s %s %s" % (m, p, m, p), [0, 1, 2, 2], fs[7], [1, -1, 1, -1]), Op("%s %s %s %s" % (p, m, m, p), [0, 1, 2, 2], fs[7], [-1, 1, 1, -1]),
                Op("%s %s %s %s %s" % (m, z, m, p, p), [0, 1, 1, 1, 2], fs[8], [1, 0, 1, -1, -1]), Op("%s %s %s %s %s" % (p, z, m, p, m), [0, 1, 1, 1, 2], fs[8], [-1, 0, 1, -1, 1]),
            ]
        return basis, terms, fs
    if name == "vib":
        basis = [ba.BasisHalfSpin("s"), ba.BasisSHO("v", 1.0, 3), ba.BasisHalfSpin("t")]
        fs = [ctx.real("f%d" % k, [0.7, -1.3, 0.45, 1.9][k]) for k in range(4)]
        if ctx.symbolic:
            for f in fs:
                ctx.assume(ctx.all([ctx.le(abs(f), 4), abs(f) > 1e-6]), "1e-6 < |f| <= 4")
        terms = [Op("sigma_z", "s", fs[0]), Op(r"sigma_x b^\dagger+b", ["s", "v"], fs[1]), Op(r"b^\dagger b", "v", fs[2]), Op(r"sigma_z x sigma_x", ["s", "v", "t"], fs[3])]
        return basis, terms, fs
    raise ValueError(name)


def h_opswap(ctx, P):
    from renormalizer.model import Model
    from renormalizer.mps import Mpo
    basis, terms, syms = build_swap_model(ctx, P["model"], extra=bool(P["jw"]))
    model = Model(basis, terms)
    with _mpo_stubs(ctx):
        mpo = Mpo(model, algo=P.get("algo", "Hopcroft-Karp"))
        H0 = np.asarray(mpo.todense())
        ref = H0
        cur_basis = list(basis)
        for i in P["swaps"]:
            dims = [b.nbas for b in cur_basis]
            perm, signs, _ = swap_unitaries(dims, i)
            ref = transform_op(ref, perm, signs if P["jw"] else None)
            cur_basis[i], cur_basis[i + 1] = cur_basis[i + 1], cur_basis[i]
            new_model = Model(list(cur_basis), terms)
            mpo.try_swap_site(new_model, P["jw"])
        got = np.asarray(mpo.todense())
    what = "F H F^T (fermionic exchange: the same second-quantised operator in the new orbital order)" if P["jw"] else "P H P^T (plain exchange of the two sites)"
    ctx.check("try_swap_site: dense operator = %s" % what, ctx.eq(got, ref))
    ctx.check("try_swap_site: the operator's model lists the basis sets in the new order", [b.dofs for b in mpo.model.basis] == [b.dofs for b in cur_basis])
    ctx.check("try_swap_site: bond labels describe the operator tensors in the new order", lib.inv_relation(ctx, mpo))


# ------------------------------------------------------------------ state-side swap
def h_mpsswap(ctx, P):
    from symnum import stubs
    from renormalizer.model import Model, basis as ba
    from renormalizer.mps import Mps, mp as mpmod
    from renormalizer.utils import CompressConfig, CompressCriteria
    from renormalizer.utils.configs import OFS
    from renormalizer.mps.svd_qn import get_qn_mask
    from checks import chainsteps as cs
    from checks.c06 import _contract_chain
    if P["kind"] == "e":
        basis = [ba.BasisHalfSpin(i, sigmaqn=[[0, 0], [1, 0]] if i % 2 == 0 else [[0, 0], [0, 1]]) for i in range(3)]
        qntot = np.array(P["nelec"])
    else:
        basis = [ba.BasisHalfSpin("s"), ba.BasisSHO("v", 1.0, 3), ba.BasisHalfSpin("t")]
        qntot = np.array([0])
    model = Model(basis, [])
    pos = P["pos"]
    cidx = [pos, pos + 1]
    # a state in the sector with the centre where a two-site step expects it
    mp = _sector_state(ctx, model, qntot, cidx, P["to_right"])
    if mp is None:
        raise RuntimeError("harness: empty sector")
    cfg = CompressConfig(CompressCriteria.fixed, max_bonddim=16, ofs=OFS.ofs_s, ofs_swap_jw=P["jw"])
    mp.compress_config = cfg
    qnbigl, qnbigr, qnmat = mp._get_big_qn(cidx)
    mask = np.asarray(get_qn_mask(qnmat, mp.qntot))
    c = lib.masked_array(ctx, "c", mask.shape, "real", mask)
    ts = lib.tensors(mp)
    e1 = ctx.real("entropy1", 0.3)
    e2 = ctx.real("entropy2", 0.2 if P.get("swap_default", True) else 0.4)
    seq = [e1, e2]
    saved_ent = mpmod.calc_vn_entropy
    mpmod.calc_vn_entropy = lambda p: seq.pop(0)
    undo = None
    if ctx.symbolic:
        _, undo = stubs.lapack_contract(ctx, modules=("renormalizer.mps.svd_qn",))
    old_dofs = [b.dofs for b in mp.model.basis]
    try:
        mp._update_mps(c, cidx, qnbigl, qnbigr, 0)
    finally:
        mpmod.calc_vn_entropy = saved_ent
        if undo:
            undo()
    new_dofs = [b.dofs for b in mp.model.basis]
    swapped = new_dofs != old_dofs
    exp_dofs = list(old_dofs)
    exp_dofs[pos], exp_dofs[pos + 1] = old_dofs[pos + 1], old_dofs[pos]
    retain = ctx.le(e1, e2)
    ctx.check("the exchange happens exactly when the criterion prefers the exchanged order, and then the model lists the two basis sets exchanged",
              ctx.all([ctx.implies(retain, not swapped), ctx.implies(ctx.neg(retain), swapped and new_dofs == exp_dofs)]))
    got = _contract_chain(lib.tensors(mp))
    left, right = ts[:pos], ts[pos + 2:]
    cc = np.asarray(c)
    if swapped:
        cc = cc.transpose(0, 2, 1, 3)
        if P["jw"]:
            cc = cc.copy()
            cc[:, 1, 1, :] = cc[:, 1, 1, :] * -1
    ref = _contract_chain(left + [cc] + right, merged_two=len(left))
    ctx.check("lossless two-site update with on-the-fly exchange: the state is the coefficient tensor in place, permuted (and sign-corrected) iff exchanged", ctx.eq(got, ref))
    ctx.check("labels are valid for the (possibly exchanged) site order", lib.inv_relation(ctx, mp))
    ctx.check("sector unchanged", lib.ctx_eq_labels(ctx, mp.qntot, qntot))


def _sector_state(ctx, model, qntot, cidx, to_right):
    """chain with valid labels (all label combinations reachable from the left), symbolic entries on the allowed blocks, centre at the
    site a two-site step on cidx expects (right site when sweeping right... as _get_big_qn asserts)"""
    from renormalizer.mps import Mps
    n = model.nsite
    qs = [[np.zeros(len(qntot), dtype=int)]]
    for i in range(n):
        sig = np.asarray(model.basis[i].sigmaqn).reshape(model.basis[i].nbas, -1)
        nxt = []
        for q in qs[-1]:
            for s in sig:
                v = q + s
                if not any(np.array_equal(v, w) for w in nxt) and np.all(v <= qntot):
                    nxt.append(v)
        qs.append(nxt)
    qs[-1] = [np.array(qntot)]
    # prune labels that cannot reach qntot
    for i in range(n - 1, -1, -1):
        sig = np.asarray(model.basis[i].sigmaqn).reshape(model.basis[i].nbas, -1)
        qs[i] = [q for q in qs[i] if any(any(np.array_equal(q + s, w) for w in qs[i + 1]) for s in sig)]
    if any(len(q) == 0 for q in qs):
        return None
    mp = Mps()
    mp.model = model
    qnidx = cidx[0] if to_right else cidx[1]
    # labels left of the centre count from the left, right of it from the right
    mp.qn = []
    for i in range(n + 1):
        if i <= qnidx:
            mp.qn.append([np.array(q) for q in qs[i]])
        else:
            mp.qn.append([np.array(qntot) - np.array(q) for q in qs[i]])
    mp.qn = [np.array(q).reshape(len(q), -1) for q in mp.qn]
    mp.qnidx = qnidx
    mp.qntot = np.array(qntot)
    mp.to_right = to_right
    for i in range(n):
        sig = np.asarray(model.basis[i].sigmaqn).reshape(model.basis[i].nbas, -1)
        shape = (len(qs[i]), model.basis[i].nbas, len(qs[i + 1]))
        mask = np.zeros(shape, dtype=bool)
        for a, qa in enumerate(qs[i]):
            for s_, sg in enumerate(sig):
                for b, qb in enumerate(qs[i + 1]):
                    mask[a, s_, b] = np.array_equal(qa + sg, qb)
        mp.append(lib.masked_array(ctx, "m%d" % i, shape, "real", mask))
    mp.coeff = 1
    return mp


def make_harness(P):
    def h(ctx):
        if P["op"] == "qc":
            return h_qc_harness(ctx, P)
        if P["op"] == "opswap":
            return h_opswap(ctx, P)
        if P["op"] == "mpsswap":
            return h_mpsswap(ctx, P)
        raise ValueError(P["op"])
    return h


def main(tier, seed):
    from renormalizer.model import h_qc
    from renormalizer.mps import symbolic_mpo as sm, mpo as mo, mp as mpm
    return common.run_check(
        PROP, "checks.c17", tier, seed,
        explanation="(a) int_to_h + qc_model (+ Mpo) on symbolic integrals with one solver variable per permutation-symmetry class for 1-2 (3 in thorough, terms only) spatial "
                    "orbitals, flat/stacked, with/without quantum numbers, with vanishing classes: dense = independent occupation-number fermionic Hamiltonian (spin-orbital and "
                    "textbook spatial form), Hermitian, commutes with N_alpha and N_beta. (b) Mpo.try_swap_site on symbolic-factor operators (qc model 1-2 orbitals, Jordan-Wigner "
                    "hopping models with long and short symbol names, spin-oscillator model), every neighbouring pair and swap sequences: plain -> P H P^T, with the Jordan-Wigner "
                    "correction -> F H F^T; labels valid. (c) _update_mps with on-the-fly swapping on a symbolic two-site tensor with the swap decision a solver variable: state "
                    "= (P or F) applied to the coefficient tensor iff swapped, model order exchanged, labels valid, sector kept.",
        assumptions=["integrals: 1e-6 < |class value| <= 4 and every antisymmetrised combination that is not identically zero is non-zero (qc_model drops exact zeros: a measure-zero set of inputs "
                     "takes other paths)", "4 spatial orbitals (256-dimensional dense space with symbolic entries) are outside the bound",
                     "the swap criteria (entropy / discarded weight) are float functions of singular values: replaced by arbitrary values, so every decision is explored; "
                     "which decision is better is not judged", "whole optimisation/evolution runs with swapping follow from (b) + (c) + the step lemmas of C04/C06/C08, they are not executed end to end",
                     "LAPACK by contract; pivoted QR by contract (C01)"],
        trusted_base=["z3 5.1", "NumPy object loops", "occupation-number reference written in the harness"],
        functions=[h_qc.int_to_h, h_qc.qc_model, h_qc.simplify_op, h_qc.generate_ladder_operator, sm.swap_site, sm.table_row_swapped_jw, sm.table_and_factor_swapped_jw,
                   sm.expand_out_op_sum_list, sm.check_swap_consistency, mo.Mpo.try_swap_site, mpm.MatrixProduct._update_mps, mpm.MatrixProduct._get_big_qn])


if __name__ == "__main__":
    import argparse
    ap = argparse.ArgumentParser()
    ap.add_argument("--tier", default=os.environ.get("VERIF_TIER", "quick"))
    a = ap.parse_args()
    sys.exit(main(a.tier, int(os.environ.get("VERIF_SEED", "0"))))
