"""C02 - TTNO construction is exact and independent of the tree topology.

For every enumerated rooted tree (node count, parent assignment, 0/1/2 basis sets per node - dummy
root / internal / leaf nodes included) the real TTNO construction runs with every term factor symbolic;
obligations: TTNO.todense() (and an independent contraction) = sum_k f_k (x) local matrices = the Mpo
of the linear chain over the same basis sets, for all factor values; the tree constructors
(linear, binary, general_mctdh incl. contract_primitive / contract_label, t3ns, add_auxiliary_space)
keep every basis set exactly once.
"""
import itertools
import os
import sys

VERIF = os.path.dirname(os.path.dirname(os.path.abspath(__file__)))
sys.path.insert(0, VERIF)
REPO = os.environ.get("VERIF_REPO", "/repo")
sys.path.insert(0, REPO)

import numpy as np  # noqa: E402
from checks import common, lib, treelib  # noqa: E402
from checks import c01  # noqa: E402

PROP = "C02"
RUN_OPTS = dict(max_paths=2000, budget_s=40.0)

KIND_SETS = [("s", "s", "s"), ("e", "e", "e"), ("s", "w", "s", "s"), ("W", "W", "W")]
# term tables over the non-dummy basis sets (index into c01.POOL of the kind)
TABLES = {
    3: [[(1, 1, 0), (0, 2, 2), (1, 0, 2)], [(1, 0, 0), (0, 1, 0), (0, 0, 1), (2, 2, 2)], [(1, 2, 1), (1, 2, 1), (0, 0, 0)]],
    4: [[(1, 1, 0, 0), (0, 2, 2, 1), (1, 0, 0, 2), (0, 0, 1, 1)], [(1, 0, 0, 0), (0, 0, 0, 1), (2, 1, 2, 0)]],
}
E_TABLES = [[(1, 2, 0), (0, 1, 2), (3, 0, 3)], [(1, 0, 2), (2, 0, 1), (3, 3, 0), (0, 0, 3)]]


def instances(tier, seed):
    out = []
    nmax = 4 if tier == "quick" else 5
    cap = 60 if tier == "quick" else 400
    for kinds in KIND_SETS:
        k = len(kinds)
        structs = treelib.structures(nmax, kinds, tier, seed=seed, cap=cap)
        tables = E_TABLES if kinds[0] == "e" else TABLES[k]
        for si, (par, cnt) in enumerate(structs):
            tb = tables[si % len(tables)]
            for algo in (("Hopcroft-Karp", "Hungarian") if tier == "thorough" or si % 3 == 0 else ("Hopcroft-Karp",)):
                out.append(dict(op="ttno", kinds=kinds, parents=list(par), counts=list(cnt), table=[list(t) for t in tb], algo=algo,
                                label="ttno %s parents=%s counts=%s %s table#%d" % ("".join(kinds), list(par), list(cnt), algo, si % len(tables)), key="ttno/%s" % algo))
    # long thin trees (11 basis sets on 11-13 nodes): node / basis indices with two digits.  Dense comparison is out of reach (2048^2 symbolic entries): compared
    # are the blocks of the operator on the basis sets the terms touch with every other ("spectator") basis set held in fixed basis states
    L = 10
    long_tables = [[{0: 1, L: 2}, {9: 3, L: 1}], [{1: 2, 2: 1, L: 4}, {2: 1, L: 4}, {1: 2}], [{9: 1, L: 1}, {2: 2, 9: 1}, {2: 2, L: 1}], [{L: 3}, {0: 3}, {L: 3}]]
    shapes = {"chain": ([i for i in range(10)], [1] * 11),
              "binary": ([(i - 1) // 2 for i in range(1, 11)], [1] * 11),
              "star": ([0] * 10, [1] * 11),
              "comb": ([0, 0, 2, 2, 4, 4, 6, 6, 8, 8, 10, 10], [0, 1, 0, 1, 1, 1, 1, 1, 1, 1, 1, 1, 1]),
              "paired": ([0, 1, 1, 3, 3, 5], [1, 2, 2, 2, 1, 2, 1])}
    for sname, (par, cnt) in shapes.items():
        for ti, tb in enumerate(long_tables):
            if tier == "quick" and sname in ("star", "paired") and ti % 2:
                continue
            table = [tuple(t.get(i, 0) for i in range(11)) for t in tb]
            for algo in (("Hopcroft-Karp", "Hungarian") if tier == "thorough" or ti == 0 else ("Hopcroft-Karp",)):
                out.append(dict(op="ttno", kinds=tuple(["s"] * 11), parents=list(par), counts=list(cnt), table=[list(t) for t in table], algo=algo, long=True,
                                label="ttno long %s tree (11 spins, %d nodes) %s terms=%s" % (sname, len(cnt), algo, str(tb).replace(" ", "")), key="ttno/%s/long" % algo))
    for n in ((1, 2, 3, 4, 5, 6) if tier == "quick" else range(1, 10)):
        out.append(dict(op="constructors", n=n, label="tree constructors n=%d basis sets" % n, key="constructors"))
    return out


def make_harness(P):
    if P["op"] == "constructors":
        return make_constructors(P)
    kinds = tuple(P["kinds"])

    def h(ctx):
        treelib.ensure_print_tree()
        from renormalizer.tn import TTNO
        from renormalizer.mps import Mpo
        from renormalizer.mps import symbolic_mpo as sm
        from renormalizer.model import Model, Op
        tree, nodes = treelib.build_basis_tree(P["parents"], P["counts"], kinds)
        bl = treelib.nondummy_basis(tree)         # preorder
        # kinds follow the preorder assignment
        table = [tuple(t) for t in P["table"]]
        fs = [ctx.real("f%d" % j, [1.3, -0.7, 0.45, 2.1, -1.9][j % 5]) for j in range(len(table))]
        groups = {}
        for j, t in enumerate(table):
            groups.setdefault(t, []).append(j)
        if ctx.symbolic:
            for f in fs:
                ctx.assume(ctx.all([ctx.le(abs(f), 4), abs(f) > 1e-9]), "1e-9 < |f| <= 4")
            for t, js in groups.items():
                s = sum((fs[j] for j in js), 0)
                ctx.assume(ctx.any([s == 0, abs(s) > 1e-9]), "merged factor is zero or above 1e-9")
        terms = []
        for j, t in enumerate(table):
            ops = [c01.site_op(kinds[i], i, k) for i, k in enumerate(t) if k != 0]
            if not ops:
                ops = [Op("I", bl[0].dofs[0])]
            terms.append(Op.product(ops) * fs[j] if len(ops) > 1 else ops[0] * fs[j])
        saved = sm.scipy
        if ctx.symbolic:
            import scipy as real_scipy

            class ScipyP:
                sparse = c01.SparseProxy(real_scipy.sparse)

                def __getattr__(self, item):
                    return getattr(real_scipy, item)
            sm.scipy = ScipyP()
        try:
            try:
                ttno = TTNO(tree, terms, algo=P["algo"])
            except ValueError as e:
                if "cannot infer dimensions" in str(e):
                    sums = [sum((fs[j] for j in js), 0) for js in groups.values()]
                    ctx.check("construction rejected only for the identically-zero operator", ctx.all([ctx.eq(x, 0) for x in sums]))
                    return
                raise
            if P.get("long"):
                _long_tree_blocks(ctx, ttno, tree, kinds, table, fs)
                return
            dims = [b.nbas for b in bl]
            D = int(np.prod(dims))
            from checks.c16 import zeros_exact
            ref = zeros_exact(ctx, (D, D))
            # basis sets were created in index order, the tree lists them in preorder: map each to its creation index
            cre = [int("".join(ch for ch in str(b.dofs[0]) if ch.isdigit())) for b in bl]
            for j, t in enumerate(table):
                mat = np.ones((1, 1))
                for i in cre:
                    mat = np.kron(mat, c01.local_matrix(kinds[i], i, t[i]))
                ref = ref + mat * fs[j]
            ctx.check("TTNO.todense() = sum of tensor products (preorder of the basis sets)", ctx.eq(ttno.todense(), ref))
            ctx.check("independent contraction of the node tensors = sum of tensor products", ctx.eq(treelib.dense_ttno(ttno), ref))
            # another order of the degrees of freedom
            if len(bl) >= 2:
                order = bl[::-1]
                perm = list(range(len(bl)))[::-1]
                refp = c01._permute_dense(ref, dims, perm)
                ctx.check("todense(order) = the same operator in the requested order", ctx.eq(ttno.todense(order), refp))
            mpo = Mpo(Model(bl, []), terms, algo=P["algo"])
            ctx.check("tree operator = Mpo of the linear chain over the same basis sets", ctx.eq(ttno.todense(), mpo.todense()))
        finally:
            sm.scipy = saved
    return h


class _N:
    pass


def _sliced(tn_nodes, basis_nodes, fix):
    """shadow tree whose node tensors have the physical (up, down) legs of the basis sets in `fix` (id(basis) -> (x, y)) indexed away"""
    sh = []
    for tnode, bnode in zip(tn_nodes, basis_nodes):
        t = np.asarray(tnode.tensor)
        nch = len(tnode.children)
        index = [slice(None)] * t.ndim
        for k, b in enumerate(bnode.basis_sets):
            if id(b) in fix:
                x, y = fix[id(b)]
                index[nch + 2 * k] = x
                index[nch + 2 * k + 1] = y
        n = _N()
        n.tensor = t[tuple(index)]
        sh.append(n)
    pos = {id(t): i for i, t in enumerate(tn_nodes)}
    for n, tnode in zip(sh, tn_nodes):
        n.children = [sh[pos[id(c)]] for c in tnode.children]
    tn = _N()
    tn.node_list = sh
    return tn


def _long_tree_blocks(ctx, ttno, tree, kinds, table, fs):
    from renormalizer.model.basis import BasisDummy
    bnodes = tree.node_list
    tnodes = ttno.node_list
    ctx.check("long tree: operator nodes parallel the basis nodes", len(bnodes) == len(tnodes) and all(len(a.children) == len(b.children) for a, b in zip(bnodes, tnodes)))
    phys = [b for bn in bnodes for b in bn.basis_sets if not isinstance(b, BasisDummy)]      # preorder
    cre = [int("".join(ch for ch in str(b.dofs[0]) if ch.isdigit())) for b in phys]
    active = set(i for t in table for i, k in enumerate(t) if k != 0)
    spect = [b for b, c in zip(phys, cre) if c not in active]
    act = [(b, c) for b, c in zip(phys, cre) if c in active]
    configs = [dict((id(b), (0, 0)) for b in spect), dict((id(b), (1, 1)) for b in spect)]
    for s_ in spect:
        c = dict((id(b), (0, 0)) for b in spect)
        c[id(s_)] = (1, 1)
        configs.append(c)
        c = dict((id(b), (0, 0)) for b in spect)
        c[id(s_)] = (0, 1)
        configs.append(c)
    got, refs = [], []
    for c in configs:
        got.append(treelib._dense(_sliced(tnodes, bnodes, c), True))
        ref = 0
        for j, t in enumerate(table):
            w = 1
            for b, cr in zip(phys, cre):
                if id(b) in c:
                    x, y = c[id(b)]
                    w = w * c01.local_matrix(kinds[cr], cr, t[cr])[x, y]
            mat = np.ones((1, 1))
            for b, cr in act:
                mat = np.kron(mat, c01.local_matrix(kinds[cr], cr, t[cr]))
            ref = ref + mat * (fs[j] * w)
        refs.append(ref)
    ctx.check("long tree: every block (spectator basis sets held in basis states) equals the sum of tensor products",
              ctx.all([ctx.eq(g, r) for g, r in zip(got, refs)]))


def make_constructors(P):
    n = P["n"]

    def h(ctx):
        treelib.ensure_print_tree()
        from renormalizer.tn import BasisTree
        from renormalizer.model import basis as ba
        from renormalizer.model.basis import BasisDummy
        bl = [ba.BasisHalfSpin("s%d" % i) for i in range(n)]

        def same(tree, expect=None):
            got = [b for b in tree.basis_list if not isinstance(b, BasisDummy)]
            exp = expect if expect is not None else bl
            ok = len(got) == len(exp) and sorted(id(b) for b in got) == sorted(id(b) for b in exp)
            # tree is well formed: every node except the root has its parent's children list containing it
            for node in tree.node_list:
                for c in node.children:
                    ok = ok and c.parent is node
            ok = ok and len(set(id(x) for x in tree.node_list)) == len(tree.node_list)
            return ok
        ctx.check("BasisTree.linear keeps every basis set once", same(BasisTree.linear(bl)))
        ctx.check("BasisTree.binary keeps every basis set once", same(BasisTree.binary(bl)))
        if n > 1:
            for order in (2, 3, 4):
                ctx.check("general_mctdh(order=%d) keeps every basis set once" % order, same(BasisTree.general_mctdh(bl, order)))
                ctx.check("general_mctdh(order=%d, contract_primitive) keeps every basis set once" % order, same(BasisTree.general_mctdh(bl, order, contract_primitive=True)))
                for lab in itertools.product((True, False), repeat=n):
                    if n > 5:
                        break
                    ctx.check("general_mctdh(order=%d, contract_label) keeps every basis set once" % order,
                              same(BasisTree.general_mctdh(bl, order, contract_primitive=True, contract_label=list(lab))))
            ctx.check("binary_mctdh / ternary_mctdh keep every basis set once", same(BasisTree.binary_mctdh(bl)) and same(BasisTree.ternary_mctdh(bl)))
        ctx.check("t3ns keeps every basis set once", same(BasisTree.t3ns(bl)))
        t = BasisTree.binary(bl)
        t2 = t.add_auxiliary_space()
        phys = [b for b in t2.basis_list if not isinstance(b, BasisDummy)]
        ctx.check("add_auxiliary_space: every physical basis is followed by its auxiliary copy with zero quantum numbers",
                  len(phys) == 2 * n and all(phys[2 * i] is bl_i or phys[2 * i].dofs == bl_i.dofs for i, bl_i in enumerate(t.basis_list))
                  and all(phys[2 * i + 1].dofs == (("Q", phys[2 * i].dofs),) and not np.any(phys[2 * i + 1].sigmaqn) for i in range(n)))
    return h


def main(tier, seed):
    treelib.ensure_print_tree()
    from renormalizer.tn import symbolic_ttno as st, tree as tr, treebase as tb
    return common.run_check(
        PROP, "checks.c02", tier, seed,
        explanation="The real TTNO construction (construct_symbolic_ttno, compose_symbolic_mo_general, symbolic_mo_to_numeric_mo_general, TTNO.todense) with every term factor symbolic on "
                    "a strided subset (quick 60 per basis family, thorough 400) of ALL rooted trees with up to 4 (5) nodes carrying 3-4 basis sets with 0, 1 or 2 sets per node (dummy "
                    "root/internal/leaf nodes), spin / electron / oscillator sites, Hopcroft-Karp and Hungarian: dense operator = sum of tensor products = linear-chain Mpo, also in a "
                    "permuted order; long thin trees (11 half-spin sets on a chain, a binary tree, a star, a comb with dummy nodes, a tree with two sets per node): blocks of the "
                    "operator on the touched basis sets with the other sets held in basis states; tree constructors (linear, binary, general_mctdh with all contract labels, t3ns, add_auxiliary_space) for 1-6 (9) basis sets keep each basis once.",
        assumptions=["the QR decomposition variant is exercised on chains in C01; here the two graph algorithms", "real factors (the TTNO code asserts real operators)",
                     "merged factors are zero or above 1e-9", "`print_tree` (missing in this image) is replaced by an empty pretty-printer"],
        trusted_base=["z3 5.1", "NumPy object loops", "opt_einsum path execution"],
        functions=[st.construct_symbolic_ttno, st.compose_symbolic_mo_general, st.symbolic_mo_to_numeric_mo_general, tr.TTNO.__init__, tr.TTNO.todense, tr.TTNO.to_contract_args,
                   tr.TTNO.get_node_indices, tb.BasisTree.linear, tb.BasisTree.binary, tb.BasisTree.general_mctdh, tb.BasisTree.t3ns, tb.BasisTree.add_auxiliary_space, tb.approximate_partition])


if __name__ == "__main__":
    import argparse
    ap = argparse.ArgumentParser()
    ap.add_argument("--tier", default=os.environ.get("VERIF_TIER", "quick"))
    a = ap.parse_args()
    sys.exit(main(a.tier, int(os.environ.get("VERIF_SEED", "0"))))
