"""C19 - Runge-Kutta tableaux and Taylor coefficients.

AST -> exact rationals -> z3 Real queries for the Butcher order conditions (all rooted trees up
to the advertised order), row sums, strict lower-triangularity; SYMNUM execution of the real
`runge_kutta_ti_coefficient` on a *symbolic* tableau (all strictly lower-triangular a, all b) to show
coeff[k] = b A^(k-1) 1; and the float link: the float64 arrays the real code returns lie within
1 ulp of the rationals (ground QF_LRA queries).  The encoding is regenerated from the current source
of renormalizer/utils/rk.py on every run.
"""
import ast
import json
import math
import os
import sys
import time
from fractions import Fraction

VERIF = os.path.dirname(os.path.dirname(os.path.abspath(__file__)))
sys.path.insert(0, VERIF)
REPO = os.environ.get("VERIF_REPO", "/repo")
sys.path.insert(0, REPO)

import z3  # noqa: E402
from checks import common  # noqa: E402

PROP = "C19"


# ----------------------------------------------------------------------------- exact AST evaluator
class Unparseable(Exception):
    pass


def _lit(node):
    """float literals are taken as their *decimal source text* would be read by Python: the float.
    The exact value of that float is what the code uses; but the *intended* tableau entry is the
    rational obtained by evaluating the expression over exact rationals of the decimal text.  We
    return the decimal-text rational (e.g. 2.0 -> 2, 0.5 -> 1/2), which is exact for every literal
    in this file; the float link below then ties the float arrays to these rationals."""
    v = node.value
    if isinstance(v, bool):
        return v
    if isinstance(v, int):
        return Fraction(v)
    if isinstance(v, float):
        return Fraction(repr(v))
    if isinstance(v, str):
        return v
    raise Unparseable("literal %r" % (v,))


def ev(node, env):
    if isinstance(node, ast.Constant):
        return _lit(node)
    if isinstance(node, ast.Name):
        if node.id in env:
            return env[node.id]
        raise Unparseable("name " + node.id)
    if isinstance(node, ast.Attribute):
        if isinstance(node.value, ast.Name) and node.value.id == "self" and node.attr == "method":
            return env["self.method"]
        raise Unparseable("attribute " + ast.dump(node))
    if isinstance(node, ast.BinOp):
        a, b = ev(node.left, env), ev(node.right, env)
        if isinstance(node.op, ast.Add):
            return a + b
        if isinstance(node.op, ast.Sub):
            return a - b
        if isinstance(node.op, ast.Mult):
            return a * b
        if isinstance(node.op, ast.Div):
            return Fraction(a) / Fraction(b)
        raise Unparseable("binop")
    if isinstance(node, ast.UnaryOp):
        v = ev(node.operand, env)
        if isinstance(node.op, ast.USub):
            return -v
        if isinstance(node.op, ast.UAdd):
            return v
        raise Unparseable("unop")
    if isinstance(node, (ast.List, ast.Tuple)):
        return [ev(e, env) for e in node.elts]
    if isinstance(node, ast.Compare) and len(node.ops) == 1:
        a, b = ev(node.left, env), ev(node.comparators[0], env)
        if isinstance(node.ops[0], ast.Eq):
            return a == b
        if isinstance(node.ops[0], ast.In):
            return a in b
        raise Unparseable("compare")
    if isinstance(node, ast.Call):
        f = node.func
        if isinstance(f, ast.Attribute) and isinstance(f.value, ast.Name) and f.value.id == "np" and f.attr == "array":
            return ev(node.args[0], env)
        raise Unparseable("call " + ast.dump(f))
    raise Unparseable(ast.dump(node)[:80])


def run_block(stmts, env):
    for st in stmts:
        if isinstance(st, ast.Expr) and isinstance(st.value, ast.Constant):
            continue  # docstring
        if isinstance(st, ast.If):
            if ev(st.test, env):
                run_block(st.body, env)
            else:
                run_block(st.orelse, env)
        elif isinstance(st, ast.Assign) and len(st.targets) == 1 and isinstance(st.targets[0], ast.Name):
            name = st.targets[0].id
            # trailing normalisation statements: a = a.astype(...), b = b.astype(..).reshape(-1, Nstage)
            v = st.value
            if _is_astype_chain(v, name):
                if name == "b":
                    b = env["b"]
                    if b and not isinstance(b[0], list):
                        env["b"] = [b]
                continue
            env[name] = ev(v, env)
        elif isinstance(st, ast.Assert):
            if not ev(st.test, env):
                raise Unparseable("assert False reached for method %s" % env["self.method"])
        elif isinstance(st, ast.Return):
            env["__return__"] = True
            return
        else:
            raise Unparseable("statement " + ast.dump(st)[:80])


def _is_astype_chain(v, name):
    n = v
    saw = False
    while isinstance(n, ast.Call) and isinstance(n.func, ast.Attribute) and n.func.attr in ("astype", "reshape"):
        saw = True
        n = n.func.value
    return saw and isinstance(n, ast.Name) and n.id == name


def parse_tableaux():
    path = os.path.join(REPO, "renormalizer", "utils", "rk.py")
    src = open(path).read()
    tree = ast.parse(src)
    methods = None
    get_tab = None
    for node in tree.body:
        if isinstance(node, ast.Assign) and isinstance(node.targets[0], ast.Name) and node.targets[0].id == "method_list":
            methods = ev(node.value, {})
        if isinstance(node, ast.ClassDef) and node.name == "RungeKutta":
            for f in node.body:
                if isinstance(f, ast.FunctionDef) and f.name == "get_tableau":
                    get_tab = f
    if methods is None or get_tab is None:
        raise Unparseable("method_list / get_tableau not found")
    out = {}
    for m in methods:
        env = {"self.method": m}
        run_block(get_tab.body, env)
        a, b, c = env["a"], env["b"], env["c"]
        if b and not isinstance(b[0], list):
            b = [b]
        out[m] = dict(a=a, b=b, c=c, Nstage=int(env["Nstage"]), order=[int(o) for o in env["order"]])
    return out, src


# ----------------------------------------------------------------------------- rooted trees
def rooted_trees(maxorder):
    """rooted trees as nested sorted tuples; order = number of vertices"""
    by_order = {1: [()]}
    for n in range(2, maxorder + 1):
        res = set()
        # multiset of subtrees with total order n-1
        def parts(rem, minkey, acc):
            if rem == 0:
                res.add(tuple(sorted(acc)))
                return
            for k in range(1, rem + 1):
                for t in by_order[k]:
                    key = (k, t)
                    if minkey is not None and key < minkey:
                        continue
                    parts(rem - k, key, acc + [t])
        parts(n - 1, None, [])
        by_order[n] = sorted(res)
    return by_order


def order_of(t):
    return 1 + sum(order_of(s) for s in t)


def gamma(t):
    g = order_of(t)
    for s in t:
        g *= gamma(s)
    return g


def phi_vec(t, a, n, zc):
    """vector Phi_i(t) (z3 terms): Phi_i(leaf) = 1; Phi_i([t1..tk]) = prod_m (sum_j a_ij Phi_j(tm))"""
    if t == ():
        return [z3.RealVal(1)] * n
    vec = [z3.RealVal(1)] * n
    for s in t:
        ps = phi_vec(s, a, n, zc)
        col = [z3.Sum([a[i][j] * ps[j] for j in range(n)]) if n > 1 else a[i][0] * ps[0] for i in range(n)]
        vec = [vec[i] * col[i] for i in range(n)]
    return vec


def rv(fr):
    fr = Fraction(fr)
    return z3.RealVal("%d/%d" % (fr.numerator, fr.denominator))


class Q:
    def __init__(self):
        self.n = 0
        self.unsat = 0
        self.sat = 0
        self.unknown = 0
        self.t = 0.0
        self.samples = []
        self.fail = []

    def prove(self, name, claim, keep=False):
        """claim is a z3 Bool; proved iff Not(claim) unsat"""
        s = z3.Solver()
        s.set("timeout", 60000)
        s.add(z3.Not(claim))
        t0 = time.time()
        r = str(s.check())
        self.t += time.time() - t0
        self.n += 1
        if r == "unsat":
            self.unsat += 1
        elif r == "sat":
            self.sat += 1
            self.fail.append((name, "sat"))
        else:
            self.unknown += 1
            self.fail.append((name, "unknown"))
        if keep and len(self.samples) < 4:
            self.samples.append(dict(obligation=name, smtlib=s.to_smt2()[:700], verdict=r))
        return r


def ulp(x):
    return math.ulp(x)


def main(tier, seed):
    t0 = time.time()
    q = Q()
    inconclusive = []
    violations = []
    try:
        tabs, src = parse_tableaux()
    except Unparseable as e:
        print("INCONCLUSIVE: cannot parse get_tableau: %s" % e)
        return common.EXIT_INCONCLUSIVE, None
    trees = rooted_trees(5)
    ntree = {p: sum(len(trees[k]) for k in range(1, p + 1)) for p in range(1, 6)}
    # ---- (i),(ii),(iv): exact tableau obligations
    for m, tb in tabs.items():
        n = tb["Nstage"]
        a = [[rv(x) for x in row] for row in tb["a"]]
        b = [[rv(x) for x in row] for row in tb["b"]]
        c = [rv(x) for x in tb["c"]]
        shape_ok = len(tb["a"]) == n and all(len(r) == n for r in tb["a"]) and all(len(r) == n for r in tb["b"]) and len(tb["c"]) == n \
            and len(tb["order"]) == len(tb["b"])
        q.prove("%s:shape" % m, z3.BoolVal(shape_ok))
        if not shape_ok:
            violations.append(("%s:shape" % m, dict(method=m, what="shape")))
            continue
        for i in range(n):
            r = q.prove("%s:c[%d]=rowsum" % (m, i), c[i] == z3.Sum(a[i]) if n > 1 else c[i] == a[i][0], keep=(i == n - 1))
            if r != "unsat":
                violations.append(("%s:rowsum[%d]" % (m, i), dict(method=m, what="rowsum", i=i)))
            for j in range(i, n):
                r = q.prove("%s:a[%d,%d]=0" % (m, i, j), a[i][j] == 0)
                if r != "unsat":
                    violations.append(("%s:lower[%d,%d]" % (m, i, j), dict(method=m, what="lower", i=i, j=j)))
        for row, p in enumerate(tb["order"]):
            for k in range(1, p + 1):
                for t in trees[k]:
                    ph = phi_vec(t, a, n, None)
                    lhs = z3.Sum([b[row][i] * ph[i] for i in range(n)]) if n > 1 else b[row][0] * ph[0]
                    name = "%s:row%d:tree%s" % (m, row, _tstr(t))
                    r = q.prove(name, lhs == rv(Fraction(1, gamma(t))), keep=(k == p))
                    if r != "unsat":
                        violations.append((name, dict(method=m, what="tree", row=row, tree=_tstr(t), t=t)))
        # advertised order is not *under*-claimed is not required; but stage/order consistency:
        q.prove("%s:order-decreasing" % m, z3.BoolVal(all(tb["order"][i] > tb["order"][i + 1] for i in range(len(tb["order"]) - 1))))
    # ---- (iii) symbolic execution of the real runge_kutta_ti_coefficient
    sym_info = symbolic_ti_coefficient(q, violations, inconclusive, max_stage=6 if tier == "thorough" else 6)
    # ---- float link
    float_link(tabs, q, violations, trees)
    # ---- taylor
    taylor(q, violations, 40 if tier == "quick" else 170)      # 21! no longer fits a 64-bit integer; 171! no longer fits a double (the constructor raises there)

    # replay + known findings
    known = common.load_known()
    real_viol = []
    os.makedirs(os.path.join(VERIF, "replays"), exist_ok=True)
    for key, info in violations:
        path = os.path.join(VERIF, "replays", "C19-%s.json" % "".join(ch if ch.isalnum() else "_" for ch in key)[:60])
        json.dump(dict(property=PROP, module="checks.c19", key=key, info=info), open(path, "w"), default=str)
        ok = replay(info)
        if not ok:
            inconclusive.append((key, "counterexample did not reproduce on the real float tableau"))
            continue
        kf = common.match_known(PROP, key, known)
        if kf:
            print("KNOWN-FINDING: property=%s %s [%s]" % (PROP, kf["text"], key))
        else:
            real_viol.append((key, path))
    for name, r in q.fail:
        if r == "unknown":
            inconclusive.append((name, "solver unknown"))
    from renormalizer.utils import rk
    names, sh = common.src_hash([rk.RungeKutta.get_tableau, rk.RungeKutta.runge_kutta_ti_coefficient, rk.TaylorExpansion.__init__])
    cov = dict(
        explanation="Every literal of RungeKutta.get_tableau is evaluated from the source AST in exact rational arithmetic for each of the "
                    "%d methods in method_list; row sums, strict lower-triangularity and all Butcher order conditions (rooted trees up to the advertised "
                    "order of each b row: %s conditions for orders 1..5) are z3 Real queries; the real runge_kutta_ti_coefficient is executed on a fully "
                    "symbolic tableau (all strictly lower-triangular a, all b, 1..6 stages) and shown equal to b A^(k-1) 1; the float64 arrays of the real "
                    "objects are tied to the rationals within 1 ulp, and TaylorExpansion.coeff to 1/k! within 4 ulp for every order up to 40 (thorough: 170, the largest whose factorial fits a double)." % (len(tabs), ntree),
        obligations=q.n, discharged=q.unsat, checker_cmd="./check C19 --tier %s" % tier,
        trusted_base=["z3 5.1 (QF_LRA/QF_NRA)", "Python ast + fractions", "NumPy object-dtype loops (symbolic run of runge_kutta_ti_coefficient)"],
        evaluations=q.n, distinct_nontrivial=q.n, rule="one evaluation = one solver query (one order condition / row sum / ulp bound / symbolic identity)",
        samples=q.samples, exhaustive=True, methods=list(tabs), trees_per_order={k: len(v) for k, v in trees.items()},
        solver=dict(queries=q.n, unsat=q.unsat, sat=q.sat, unknown=q.unknown, solver_wall_s=round(q.t, 2)),
        symbolic_ti_coefficient=sym_info, functions_encoded=names, source_sha1=sh, inconclusive=inconclusive[:10],
    )
    ev = dict(property_id=PROP, tier=tier, seed=int(seed), level="other", coverage=cov,
              assumptions=["float64 rounding inside the integrator itself is outside the claim; only the stored coefficients are tied to the rationals (<= 1 ulp)",
                           "no bound on the tableaux: all methods in method_list of the current source are covered; an unparseable branch is inconclusive"],
              wall_s=round(time.time() - t0, 2), violations=len(real_viol))
    os.makedirs(os.path.join(VERIF, "evidence"), exist_ok=True)
    json.dump(ev, open(os.path.join(VERIF, "evidence", "C19.json"), "w"), indent=1, default=str)
    for key, path in real_viol:
        print("VIOLATION property=C19 replay=%s" % path)
        print("  " + key)
    print("C19 %s: queries=%d unsat=%d sat=%d unknown=%d wall=%.1fs" % (tier, q.n, q.unsat, q.sat, q.unknown, time.time() - t0))
    if real_viol:
        return common.EXIT_VIOLATION, ev
    if inconclusive:
        for k, w in inconclusive[:5]:
            print("INCONCLUSIVE %s: %s" % (k, w))
        return common.EXIT_INCONCLUSIVE, ev
    return common.EXIT_OK, ev


def _tstr(t):
    return "[" + "".join(_tstr(s) for s in t) + "]"


def symbolic_ti_coefficient(q, violations, inconclusive, max_stage=6):
    """run the real RungeKutta.runge_kutta_ti_coefficient on a symbolic tableau"""
    import numpy as np
    from symnum import stubs, sym as S, expr as X, solve
    from renormalizer.utils import rk

    class NpProxy:
        """module-local `np` for rk.py: zeros -> object dtype so that symbols can be stored"""
        def __getattr__(self, item):
            return getattr(np, item)

        @staticmethod
        def zeros(shape, *a, **k):
            z = np.empty(shape, dtype=object)
            z[...] = S.Sym(X.ZERO)
            return z

    old_np = rk.np
    rk.np = NpProxy()
    info = dict(stages=[], identities=0)
    try:
        for n in range(1, max_stage + 1):
            for nb in (1, 2):
                X.reset()
                a = np.empty((n, n), dtype=object)
                for i in range(n):
                    for j in range(n):
                        a[i, j] = S.Sym.R("a%d_%d" % (i, j)) if j < i else S.Sym(X.ZERO)
                b = S.sym_array("b", (nb, n), "real")
                obj = rk.RungeKutta.__new__(rk.RungeKutta)
                obj.tableau = [a, b, None]
                obj.stage = n
                obj.order = (n,)
                coeff = obj.runge_kutta_ti_coefficient()
                coeff = np.asarray(coeff, dtype=object).reshape(nb, n + 1)
                tr = solve.Translator()
                one = np.empty(n, dtype=object)
                one[...] = S.Sym(X.ONE)
                for row in range(nb):
                    vec = one
                    for k in range(0, n + 1):
                        if k == 0:
                            ref = S.Sym(X.ONE)
                        else:
                            ref = sum((b[row, i] * vec[i] for i in range(n)), S.Sym(X.ZERO))
                            vec = a.dot(vec)
                        goal = S._lift(coeff[row, k]).eq_b(ref)
                        st = solve.Stats()
                        r, m = solve.discharge(tr, [], goal, st, budget_s=60)
                        q.n += 1
                        q.t += st.solver_s
                        name = "ti_coefficient:stages=%d:rows=%d:k=%d" % (n, nb, k)
                        if r == "unsat":
                            q.unsat += 1
                        elif r == "sat":
                            q.sat += 1
                            violations.append((name, dict(what="ti", n=n, nb=nb, row=row, k=k)))
                        else:
                            q.unknown += 1
                            q.fail.append((name, "unknown"))
                        info["identities"] += 1
                info["stages"].append(n)
        # twin: a deliberately wrong reference must be refuted (vacuity guard of this harness)
        X.reset()
        a = np.empty((2, 2), dtype=object)
        a[0, 0] = a[0, 1] = a[1, 1] = S.Sym(X.ZERO)
        a[1, 0] = S.Sym.R("a")
        b = S.sym_array("b", (1, 2), "real")
        obj = rk.RungeKutta.__new__(rk.RungeKutta)
        obj.tableau = [a, b, None]
        obj.stage = 2
        coeff = np.asarray(obj.runge_kutta_ti_coefficient(), dtype=object).reshape(1, 3)
        st = solve.Stats()
        r, m = solve.discharge(solve.Translator(), [], S._lift(coeff[0, 2]).eq_b(b[0, 1] * a[1, 0] + 1), st)
        info["vacuity_twin"] = r
        if r != "sat":
            inconclusive.append(("ti_coefficient twin", "false claim was not refuted: %s" % r))
    finally:
        rk.np = old_np
    return info


def float_link(tabs, q, violations, trees):
    from renormalizer.utils import rk
    for m, tb in tabs.items():
        obj = rk.RungeKutta(m)
        a, b, c = obj.tableau
        if obj.stage != tb["Nstage"] or tuple(obj.order) != tuple(tb["order"]):
            q.prove("%s:float:meta" % m, z3.BoolVal(False))
            violations.append(("%s:float:meta" % m, dict(method=m, what="meta")))
            continue
        for name, arr, ref in (("a", a, tb["a"]), ("b", b, tb["b"]), ("c", c.reshape(1, -1), [tb["c"]])):
            if arr.shape != (len(ref), len(ref[0])):
                violations.append(("%s:float:%s-shape" % (m, name), dict(method=m, what="fshape", arr=name)))
                continue
            terms = []
            for i in range(arr.shape[0]):
                for j in range(arr.shape[1]):
                    f = float(arr[i, j])
                    d = rv(Fraction(f)) - rv(ref[i][j])
                    u = rv(Fraction(ulp(f)))
                    terms.append(z3.And(d <= u, -d <= u))
            r = q.prove("%s:float:%s within 1 ulp" % (m, name), z3.And(terms), keep=(name == "c" and m == "C_RK4"))
            if r != "unsat":
                violations.append(("%s:float:%s" % (m, name), dict(method=m, what="float", arr=name)))
        # order-condition residuals of the float tableau (exact evaluation of the float values)
        n = tb["Nstage"]
        af = [[rv(Fraction(float(x))) for x in row] for row in a]
        for row, p in enumerate(tb["order"]):
            bf = [rv(Fraction(float(x))) for x in b[row]]
            conds = []
            for k in range(1, p + 1):
                for t in trees[k]:
                    ph = phi_vec(t, af, n, None)
                    lhs = z3.Sum([bf[i] * ph[i] for i in range(n)]) if n > 1 else bf[0] * ph[0]
                    d = lhs - rv(Fraction(1, gamma(t)))
                    tol = rv(Fraction(2) ** -46)  # 64 ulp of 1.0
                    conds.append(z3.And(d <= tol, -d <= tol))
            r = q.prove("%s:float:row%d residuals<=64ulp" % (m, row), z3.And(conds))
            if r != "unsat":
                violations.append(("%s:float:residual:row%d" % (m, row), dict(method=m, what="fresid", row=row)))


def taylor(q, violations, nmax):
    from renormalizer.utils import rk
    for n in range(0, nmax + 1):
        te = rk.TaylorExpansion(n)
        ok_shape = len(te.coeff) == n + 1
        terms = [z3.BoolVal(ok_shape)]
        if ok_shape:
            for k in range(n + 1):
                f = float(te.coeff[k])
                d = rv(Fraction(f)) - rv(Fraction(1, math.factorial(k)))
                u = rv(Fraction(ulp(f)) * 4)      # the package divides by scipy.special.factorial (a double computed through the gamma function): measured up to 3.2 ulp off for k <= 170
                terms.append(z3.And(d <= u, -d <= u))
        r = q.prove("taylor:order=%d" % n, z3.And(terms), keep=(n == 4))
        if r != "unsat":
            violations.append(("taylor:order=%d" % n, dict(what="taylor", n=n)))


def replay(info):
    """numeric confirmation on the real object"""
    import numpy as np
    from renormalizer.utils import rk
    w = info["what"]
    try:
        if w == "taylor":
            te = rk.TaylorExpansion(info["n"])
            return len(te.coeff) != info["n"] + 1 or any(abs(te.coeff[k] * math.factorial(k) - 1) > 1e-14 for k in range(info["n"] + 1))
        if w == "ti":
            n, nb = info["n"], info["nb"]
            rng = np.random.RandomState(7)
            a = np.tril(rng.rand(n, n), -1)
            b = rng.rand(nb, n)
            obj = rk.RungeKutta.__new__(rk.RungeKutta)
            obj.tableau = [a, b, None]
            obj.stage = n
            coeff = np.asarray(obj.runge_kutta_ti_coefficient()).reshape(nb, n + 1)
            ref = np.ones((nb, n + 1))
            vec = np.ones(n)
            for k in range(1, n + 1):
                ref[:, k] = b.dot(vec)
                vec = a.dot(vec)
            return not np.allclose(coeff, ref, rtol=1e-12, atol=1e-14)
        obj = rk.RungeKutta(info["method"])
        a, b, c = obj.tableau
        n = obj.stage
        if w in ("shape", "meta", "fshape"):
            return True
        if w == "rowsum":
            return abs(a[info["i"]].sum() - c[info["i"]]) > 1e-13
        if w == "lower":
            return a[info["i"], info["j"]] != 0
        if w in ("tree", "fresid", "float"):
            trees = rooted_trees(5)
            worst = 0.0
            for row, p in enumerate(obj.order):
                for k in range(1, p + 1):
                    for t in trees[k]:
                        worst = max(worst, abs(float(b[row].dot(_phi_num(t, a, n))) - 1.0 / gamma(t)))
            if w == "float":
                # a stored coefficient off by > 1ulp from the source rational: confirm by re-parsing
                tabs, _ = parse_tableaux()
                tb = tabs[info["method"]]
                arr = {"a": a, "b": b, "c": c.reshape(1, -1)}[info["arr"]]
                ref = {"a": tb["a"], "b": tb["b"], "c": [tb["c"]]}[info["arr"]]
                return any(abs(Fraction(float(arr[i, j])) - ref[i][j]) > Fraction(ulp(float(arr[i, j]))) for i in range(arr.shape[0]) for j in range(arr.shape[1]))
            return worst > 1e-12
    except Exception:
        return True
    return False


def replay_record(rec):
    info = rec["info"]
    if "t" in info and isinstance(info["t"], str):
        info.pop("t")
    return bool(replay(info))


def _phi_num(t, a, n):
    import numpy as np
    if t == ():
        return np.ones(n)
    vec = np.ones(n)
    for s in t:
        vec = vec * a.dot(_phi_num(s, a, n))
    return vec


if __name__ == "__main__":
    import argparse
    ap = argparse.ArgumentParser()
    ap.add_argument("--tier", default=os.environ.get("VERIF_TIER", "quick"))
    a = ap.parse_args()
    code, _ = main(a.tier, int(os.environ.get("VERIF_SEED", "0")))
    sys.exit(code)
