"""C07 - observables computed from the network equal their dense definitions.

State tensors (bra and ket independently) and operator site matrices are solver variables.  The batched
fast path `expectations(mpos)` is driven through every *sharing pattern* of a small operator list - which
operator uses which site matrix at which site - because that is what its hash-keyed environment cache
depends on (shared prefixes / suffixes, identical operators, operators differing at one site).  Equal
pattern ids reuse the very same symbolic objects, so the real Matrix.__hash__ collides exactly when the
pattern says so.  Obligations: fast path = one-by-one path = dense <bra|O|ket> for the list and its
reverse; occupations; one-site, two-site and electronic reduced density matrices = partial traces of the
dense outer product; density-operator (MpDm) expectation path.
"""
import itertools
import os
import sys

VERIF = os.path.dirname(os.path.dirname(os.path.abspath(__file__)))
sys.path.insert(0, VERIF)
REPO = os.environ.get("VERIF_REPO", "/repo")
sys.path.insert(0, REPO)

import numpy as np  # noqa: E402
from checks import common, lib  # noqa: E402

PROP = "C07"
RUN_OPTS = dict(max_paths=2000, budget_s=40.0)


def instances(tier, seed):
    out = []
    # cache combinatorics: all patterns op x site -> matrix id
    for n, k, ids, bond, obond in ([(3, 3, 2, 1, 1), (3, 2, 2, 2, 1), (2, 3, 2, 2, 1), (3, 2, 2, 1, 2)] if tier == "quick" else
                                   [(3, 3, 2, 1, 1), (3, 2, 2, 2, 1), (2, 3, 2, 2, 1), (3, 2, 2, 1, 2), (3, 3, 3, 1, 1), (4, 2, 2, 1, 1), (3, 3, 2, 2, 1)]):
        pats = list(itertools.product(range(ids), repeat=n * k))
        step = 1
        if tier == "quick" and len(pats) > 256:
            step = len(pats) // 256 + 1
        for pi, pat in enumerate(pats):
            if pi % step != (seed % step):
                continue
            # canonical up to renaming of ids per site is not attempted: cheap enough
            out.append(dict(op="fastpath", n=n, k=k, pat=list(pat), bond=bond, obond=obond, bra=(pi % 3 == 0),
                            label="fastpath n=%d k=%d bond=%d obond=%d pat=%s bra=%s" % (n, k, bond, obond, "".join(map(str, pat)), pi % 3 == 0), key="fastpath"))
    for kinds, bonds in [(("e", "e"), (1, 2, 1)), (("e", "w", "e"), (1, 2, 2, 1)), (("s", "s", "s"), (1, 2, 2, 1))]:
        for kind in (("real",) if tier == "quick" else ("real", "cplx")):
            if kind == "cplx" and len(kinds) > 2:
                continue
            for op in ("expectation", "transition", "rdm1", "rdm2", "occupations", "edof_rdm", "mpdm"):
                if op in ("occupations", "edof_rdm") and "e" not in kinds:
                    continue
                out.append(dict(op=op, kinds=kinds, bonds=bonds, kind=kind, label="%s %s %s" % (op, "".join(kinds), kind), key=op))
    out.append(dict(op="expectation", kinds=("e", "e"), bonds=(1, 2, 1), kind="cplx", label="expectation ee cplx", key="expectation"))
    out.append(dict(op="transition", kinds=("e", "e"), bonds=(1, 2, 1), kind="cplx", label="transition ee cplx", key="transition"))
    out.append(dict(op="rdm1", kinds=("e", "e"), bonds=(1, 2, 1), kind="cplx", label="rdm1 ee cplx", key="rdm1"))
    out.append(dict(op="rdm2", kinds=("s", "s", "s"), bonds=(1, 2, 2, 1), kind="cplx", label="rdm2 sss cplx", key="rdm2"))
    # long thin chain (11 electron sites, bond dimension 1 except one bond of 2): site indices with two digits, sweeps over more than ten bonds
    for op in ("rdm1", "rdm2", "occupations"):
        out.append(dict(op=op, kinds=tuple(["e"] * 11), bonds=((1,) * 12 if op == "rdm2" else (1, 1, 1, 1, 1, 1, 1, 1, 1, 1, 2, 1)), kind="real", long=True, mem_gb=(7.0 if op == "rdm2" else 3.5),
                        label="%s long chain (11 electron sites)" % op, key=op + "/long"))
    # density operators (purifications): physical and ancilla legs of a generic MpDm are not interchangeable
    for kinds, bonds in [(("s", "s"), (1, 2, 1)), (("s", "w", "s"), (1, 2, 2, 1))]:
        for op in ("mpdm_rdm1", "mpdm_rdm2"):
            out.append(dict(op=op, kinds=kinds, bonds=bonds, kind="real", label="%s %s generic density operator" % (op, "".join(kinds)), key=op))
    out.append(dict(op="mpdm_rdm1", kinds=("s", "s"), bonds=(1, 2, 1), kind="cplx", label="mpdm_rdm1 ss generic density operator complex", key="mpdm_rdm1"))
    return out


def plain_mps(ctx, name, model, bonds, kind="real"):
    from renormalizer.mps import Mps
    m = Mps()
    m.model = model
    if (not ctx.symbolic) and kind == "cplx":
        m.to_complex(inplace=True)      # float build: the container's dtype decides what append() accepts
    for i in range(model.nsite):
        m.append(ctx.array("%s%d" % (name, i), (bonds[i], model.pbond_list[i], bonds[i + 1]), kind))
    m.build_empty_qn()
    m.coeff = 1
    return m


def make_harness(P):
    op = P["op"]
    if op == "fastpath":
        return make_fastpath(P)

    def h(ctx):
        from renormalizer.mps import Mps, Mpo, MpDm
        from renormalizer.model import Op
        model = lib.make_model(P["kinds"])
        n = model.nsite
        kind = P["kind"]
        a = plain_mps(ctx, "a", model, P["bonds"], kind)
        va = lib.dense_vec(lib.tensors(a))
        dims = list(model.pbond_list)
        if op in ("expectation", "transition", "mpdm"):
            o = Mpo()
            o.model = model
            if (not ctx.symbolic) and kind == "cplx":
                o.to_complex(inplace=True)
            obonds = [1] + [2] * (n - 1) + [1]
            for i in range(n):
                o.append(ctx.array("o%d" % i, (obonds[i], dims[i], dims[i], obonds[i + 1]), kind))
            o.build_empty_qn()
            O = lib.dense_op(lib.tensors(o))
            if op == "expectation":
                r = a.expectation(o)
                ctx.check("expectation = <psi|O|psi> (tensor part)", ctx.eq(r, lib.vdot(va, O.dot(va))))
                if kind == "real":
                    a.scale(ctx.real("kscale", 0.5), inplace=True)
                    v2 = lib.dense_vec(lib.tensors(a))
                    ctx.check("after an in-place scale of the same object the expectation is that of the NEW tensors", ctx.eq(a.expectation(o), lib.vdot(v2, O.dot(v2))))
            elif op == "transition":
                b = plain_mps(ctx, "b", model, P["bonds"], kind)
                vb = lib.dense_vec(lib.tensors(b))
                r = a.expectation(o, self_conj=b.conj())
                ctx.check("transition amplitude = <phi|O|psi>, bra conjugated exactly once", ctx.eq(r, lib.vdot(vb, O.dot(va))))
            else:
                d = MpDm.from_mps(a)
                r = d.expectation(o)
                R = lib.dense_op(lib.tensors(d))
                ref = np.trace(np.conj(R).T.dot(O).dot(R))
                ctx.check("density-operator expectation path = Tr(rho^dagger O rho)", ctx.eq(r, ref))
                # a generic (non-diagonal) density operator as well
                g = MpDm()
                g.model = model
                if (not ctx.symbolic) and kind == "cplx":
                    g.to_complex(inplace=True)
                gb = [1] + [2] * (n - 1) + [1]
                for i in range(n):
                    g.append(ctx.array("g%d" % i, (gb[i], dims[i], dims[i], gb[i + 1]), kind))
                g.build_empty_qn()
                g.coeff = 1
                G = lib.dense_op(lib.tensors(g))
                ctx.check("density-operator expectation path = Tr(rho^dagger O rho) for a generic rho", ctx.eq(g.expectation(o), np.trace(np.conj(G).T.dot(O).dot(G))))
        elif op in ("mpdm_rdm1", "mpdm_rdm2"):
            g = MpDm()
            g.model = model
            if (not ctx.symbolic) and kind == "cplx":
                g.to_complex(inplace=True)
            gb = list(P["bonds"])
            for i in range(n):
                g.append(ctx.array("g%d" % i, (gb[i], dims[i], dims[i], gb[i + 1]), kind))
            g.build_empty_qn()
            g.coeff = 1
            # the purification as a vector over (physical_1, ancilla_1, physical_2, ancilla_2, ...)
            res = np.ones((1, 1), dtype=object if ctx.symbolic else complex)
            for t in lib.tensors(g):
                t = np.asarray(t)
                res = np.tensordot(res, t, axes=([-1], [0])).reshape(-1, t.shape[-1])
            psi2 = res[:, 0].reshape([d for d_ in dims for d in (d_, d_)])
            if op == "mpdm_rdm1":
                rd = g.calc_1site_rdm()
                ctx.check("density operator: one-site reduced density matrices = partial trace over every other PHYSICAL and every ANCILLA index",
                          ctx.all([ctx.eq(rd[i], _partial_trace(psi2, [2 * i])) for i in range(n)]))
            else:
                rd = g.calc_2site_rdm()
                conds = [ctx.eq(np.asarray(rd[(i, j)]).reshape(dims[i] * dims[j], dims[i] * dims[j]), _partial_trace(psi2, [2 * i, 2 * j])) for i in range(n) for j in range(i + 1, n)]
                ctx.check("density operator: two-site reduced density matrices = partial trace over the other physical and all ancilla indices", ctx.all(conds))
        elif op == "rdm1":
            rd = a.calc_1site_rdm()
            psi = va.reshape(dims)
            conds = []
            for i in range(n):
                ref = _partial_trace(psi, [i])
                conds.append(ctx.eq(rd[i], ref))
            ctx.check("one-site reduced density matrices = partial traces of the dense outer product (index order: bra index first)", ctx.all(conds))
            only = a.calc_1site_rdm(idx=1)
            ctx.check("idx argument selects the requested site", list(only.keys()) == [1] and ctx.eq(only[1], _partial_trace(psi, [1])))
            if P.get("long"):
                only = a.calc_1site_rdm(idx=n - 1)
                ctx.check("idx argument selects the requested site", list(only.keys()) == [n - 1] and ctx.eq(only[n - 1], _partial_trace(psi, [n - 1])))
                return
            if kind == "real":
                # history on the same object: query, modify in place, query again - nothing remembered from the first query may survive
                a.scale(ctx.real("kscale", 0.5), inplace=True)
                psi2 = lib.dense_vec(lib.tensors(a)).reshape(dims)
                rd2 = a.calc_1site_rdm()
                ctx.check("after an in-place scale of the same object the one-site reduced density matrices are those of the NEW state",
                          ctx.all([ctx.eq(rd2[i], _partial_trace(psi2, [i])) for i in range(n)]))
        elif op == "rdm2":
            rd = a.calc_2site_rdm()
            psi = va.reshape(dims)
            conds = [ctx.eq(rd[(i, j)], _partial_trace(psi, [i, j])) for i in range(n) for j in range(i + 1, n)]
            ctx.check("two-site reduced density matrices = partial traces (all pairs incl. non-adjacent)", ctx.all(conds))
            ctx.check("all pairs present", sorted(rd.keys()) == [(i, j) for i in range(n) for j in range(i + 1, n)])
            if P.get("long"):
                return
            if kind == "real":
                a.scale(ctx.real("kscale", 0.5), inplace=True)
                psi2 = lib.dense_vec(lib.tensors(a)).reshape(dims)
                rd2 = a.calc_2site_rdm()
                ctx.check("after an in-place scale of the same object the two-site reduced density matrices are those of the NEW state",
                          ctx.all([ctx.eq(rd2[(i, j)], _partial_trace(psi2, [i, j])) for i in range(n) for j in range(i + 1, n)]))
        elif op == "occupations":
            occ = a.e_occupations
            if P.get("long"):
                psi = va.reshape(dims)
                refs = [_partial_trace(psi, [model.dof_to_siteidx[dof]])[1, 1] for dof in model.e_dofs]
                ctx.check("electronic occupations = <a^dagger a> from the dense vector", ctx.eq(np.asarray(occ), np.array(refs, dtype=object if ctx.symbolic else float)))
                return
            refs = []
            for dof in model.e_dofs:
                si = model.dof_to_siteidx[dof]
                nop = np.diag([0.0, 1.0])
                refs.append(lib.vdot(va, _embed(nop, si, dims).dot(va)))
            ctx.check("electronic occupations = <a^dagger a> from the dense vector", ctx.eq(np.asarray(occ), np.array(refs, dtype=object if ctx.symbolic else float)))
            if model.v_dofs:
                ph = a.ph_occupations
                refs = []
                for dof in model.v_dofs:
                    si = model.dof_to_siteidx[dof]
                    refs.append(lib.vdot(va, _embed(np.diag(np.arange(dims[si], dtype=float)), si, dims).dot(va)))
                ctx.check("vibrational occupations = <n> from the dense vector", ctx.eq(np.asarray(ph), np.array(refs, dtype=object if ctx.symbolic else float)))
        elif op == "edof_rdm":
            rho = a.calc_edof_rdm()
            ad = np.array([[0.0, 0.0], [1.0, 0.0]])
            conds = []
            es = [model.dof_to_siteidx[d] for d in model.e_dofs]
            for x, si in enumerate(es):
                for y, sj in enumerate(es):
                    if si == sj:
                        opm = _embed(ad.dot(ad.T), si, dims)
                    else:
                        opm = _embed(ad, si, dims).dot(_embed(ad.T, sj, dims))
                    conds.append(ctx.eq(rho[x, y], lib.vdot(va, opm.dot(va))))
            ctx.check("electronic reduced density matrix rho_ij = <a_i^dagger a_j> incl. the Hermitian completion", ctx.all(conds))
    return h


def _embed(mat, si, dims):
    k = np.ones((1, 1))
    for s, d in enumerate(dims):
        k = np.kron(k, mat if s == si else np.eye(d))
    return k


def _partial_trace(psi, keep):
    """rho[(kept bra idx), (kept ket idx)] = sum_rest conj(psi[..bra..]) psi[..ket..]  (the code's index order)"""
    n = psi.ndim
    rest = [i for i in range(n) if i not in keep]
    perm = keep + rest
    t = np.transpose(psi, perm)
    dk = int(np.prod([psi.shape[i] for i in keep]))
    t = t.reshape(dk, -1)
    return np.conj(t).dot(t.T)


def make_fastpath(P):
    n, k, pat, bond, obond = P["n"], P["k"], P["pat"], P["bond"], P["obond"]

    def h(ctx):
        from renormalizer.mps import Mps, Mpo
        model = lib.make_model(tuple(["s"] * n))
        bonds = [1] + [bond] * (n - 1) + [1]
        a = plain_mps(ctx, "a", model, bonds, "real")
        va = lib.dense_vec(lib.tensors(a))
        bra = None
        vb = va
        if P["bra"]:
            bra = plain_mps(ctx, "b", model, bonds, "real")
            vb = lib.dense_vec(lib.tensors(bra))
        obonds = [1] + [obond] * (n - 1) + [1]
        base = {}
        mpos = []
        for q in range(k):
            o = Mpo()
            o.model = model
            for i in range(n):
                mid = pat[q * n + i]
                if (i, mid) not in base:
                    base[(i, mid)] = ctx.array("m%d_%d" % (i, mid), (obonds[i], 2, 2, obonds[i + 1]), "real")
                o.append(base[(i, mid)].copy())      # new array object, SAME element objects: hashes collide exactly per pattern
            o.build_empty_qn()
            mpos.append(o)
        refs = [lib.vdot(vb, lib.dense_op(lib.tensors(o)).dot(va)) for o in mpos]
        kw = dict(self_conj=bra.conj()) if bra is not None else {}
        fast = a.expectations(mpos, **kw)
        slow = [a.expectation(o, **kw) for o in mpos]
        naive = a.expectations(mpos, opt=False, **kw)
        ctx.check("batched fast path = dense <bra|O|ket> for every operator of the list", ctx.eq(np.asarray(fast), np.array(refs, dtype=object if ctx.symbolic else float)))
        ctx.check("one-by-one path = dense", ctx.eq(np.array(slow, dtype=object if ctx.symbolic else float), np.array(refs, dtype=object if ctx.symbolic else float)))
        ctx.check("opt=False path = dense", ctx.eq(np.asarray(naive), np.array(refs, dtype=object if ctx.symbolic else float)))
        fast_r = a.expectations(mpos[::-1], **kw)
        ctx.check("fast path on the reversed list returns the reversed results", ctx.eq(np.asarray(fast_r), np.array(refs[::-1], dtype=object if ctx.symbolic else float)))
    return h


def main(tier, seed):
    from renormalizer.mps import mps as mpsmod, lib as mlib, mpdm as mpdmmod, matrix as mx
    M = mpsmod.Mps
    return common.run_check(
        PROP, "checks.c07", tier, seed,
        explanation="expectations() fast path against expectation() and the dense definition for every sharing pattern of k=2-3 operators on 2-3 (thorough 4) sites over 2 (3) "
                    "site-matrix ids, state bond 1-2, operator bond 1-2, with and without an independent bra, list and reversed list; expectation / transition amplitude with "
                    "generic operators of bond 2 (real, and complex on 2 sites: the bra is conjugated exactly once); e/ph occupations; one-site, two-site (all pairs) and "
                    "electronic reduced density matrices against partial traces; MpDm expectation path.",
        assumptions=["entropies (von Neumann, mutual, bond) go through eigh/log of float spectra and are NOT covered - only their inputs (RDMs here, singular values in C05/C18)",
                     "the scalar prefactor `coeff` is not part of expectation values by design (normalised tensor part); obligations are stated on the tensor part",
                     "complex states only on 2 sites (on 3 sites the `np.isclose(imag, 0)` return-type switch yields a degree-9 path condition, DESIGN.md C07)",
                     "reduced density matrices use the code's index order (bra index first); for real states this is the same matrix",
                     "np.isclose/np.allclose on symbolic values are exact-equality forks"],
        trusted_base=["z3 5.1", "NumPy object loops", "Python's hash of (shape, bytes) for the cache keys"],
        functions=[M.expectation, M.expectations, M._expectation_path, M._expectation_conj, mpsmod._construct_freq_environ, mpsmod._get_freq_environ, mx.Matrix.__hash__,
                   mlib.Environ.GetLR, mlib.contract_one_site, mx.multi_tensor_contract, M.calc_1site_rdm, M.calc_2site_rdm, M.calc_edof_rdm, mpdmmod.MpDm._expectation_path])


if __name__ == "__main__":
    import argparse
    ap = argparse.ArgumentParser()
    ap.add_argument("--tier", default=os.environ.get("VERIF_TIER", "quick"))
    a = ap.parse_args()
    sys.exit(main(a.tier, int(os.environ.get("VERIF_SEED", "0"))))
