"""C04 - canonicalisation and lossless compression preserve the represented object.

Step lemma (one-step induction): from an ARBITRARY symbolic pre-state that satisfies the label
invariant, with the centre at site idx, one real `_push_cano(idx)` / one real `compress()` /
`canonicalise()` sweep (LAPACK by contract) leaves the dense object (incl. prefactor and sector)
unchanged, makes the site it left an isometry in the sweep direction, does not grow any bond beyond
what it was or what the physical dimensions allow, re-establishes the invariant with the centre
moved, and touches no other site.  Loop coverage: `iter_idx_list`, `_switch_direction` and the
`ensure_*_canonical` entry conditions are checked over symbolic integers.
"""
import os
import sys

VERIF = os.path.dirname(os.path.dirname(os.path.abspath(__file__)))
sys.path.insert(0, VERIF)
REPO = os.environ.get("VERIF_REPO", "/repo")
sys.path.insert(0, REPO)

import numpy as np  # noqa: E402
from checks import common, lib, chainsteps as cs  # noqa: E402

PROP = "C04"
RUN_OPTS = dict(max_paths=3000, budget_s=40.0)


def instances(tier, seed):
    out = []
    cap = 2 if tier == "quick" else 4

    def add(**kw):
        kw["label"] = "%s %s %s bonds=%s qn=%s qt=%s idx=%s right=%s%s" % (kw["op"], kw["cls"], "".join(kw["kinds"]), kw["bonds"], lib_short(kw["qn"]), kw["qntot"],
                                                                         kw["qnidx"], kw["to_right"], (" stop=%s" % kw["stop"]) if kw.get("stop") is not None else "") + (" per-bond temp_m_trunc" if kw.get("temp_list") else "")
        kw["key"] = "%s/%s" % (kw["op"], kw["cls"]) + ("/temp_list" if kw.get("temp_list") else "")
        out.append(kw)

    # long thin chain (11 sites, 12 bonds, bond dimension 1-2): sweeps that run over more than ten bonds
    n11 = 11
    occ = [0, 1, 0, 0, 1, 0, 0, 0, 1, 0, 0]
    left = [sum(occ[:i]) for i in range(n11 + 1)]
    # (canonicalise asserts that the centre sits at the end the sweep starts from)
    for centre, to_right in ((0, True), (n11 - 1, False)):
        qn = [[[left[i] if i <= centre else 3 - left[i]]] for i in range(n11 + 1)]
        for op in ("canonicalise", "compress"):
            if op == "compress" and centre not in (0, n11 - 1):
                continue
            add(op=op, cls="mps", kinds=tuple(["e"] * n11), bonds=tuple([1] * (n11 + 1)), qn=qn, qntot=3, qnidx=centre, to_right=to_right)
        add(op="canonicalise", cls="mps", kinds=tuple(["e"] * n11), bonds=tuple([1] * (n11 + 1)), qn=qn, qntot=3, qnidx=centre, to_right=to_right, stop=(8 if to_right else 2))
    for cls, kinds, bonds in cs.structures(tier):
        n = len(kinds)
        qntots = [1] if tier == "quick" else [0, 1, 2]
        if cls == "mpo":
            qntots = [0, 1] if tier == "quick" else [0, 1, -1]
        for qntot in qntots:
            for idx in range(n):
                for qn in cs.label_sets(cls, kinds, bonds, qntot, idx, cap, seed):
                    for to_right in (True, False):
                        # single step from any centre that has a neighbour in the sweep direction
                        if (to_right and idx < n - 1) or (not to_right and idx > 0):
                            add(op="push_cano", cls=cls, kinds=kinds, bonds=bonds, qn=qn, qntot=qntot, qnidx=idx, to_right=to_right)
                    # whole sweeps start from a boundary centre
                    if idx == 0:
                        add(op="canonicalise", cls=cls, kinds=kinds, bonds=bonds, qn=qn, qntot=qntot, qnidx=0, to_right=True)
                        if n == 2 or tier == "thorough":
                            add(op="compress", cls=cls, kinds=kinds, bonds=bonds, qn=qn, qntot=qntot, qnidx=0, to_right=True)
                            add(op="compress", cls=cls, kinds=kinds, bonds=bonds, qn=qn, qntot=qntot, qnidx=0, to_right=True, temp_list=True)
                        if n > 2:
                            for stop in range(0, n):
                                add(op="canonicalise", cls=cls, kinds=kinds, bonds=bonds, qn=qn, qntot=qntot, qnidx=0, to_right=True, stop=stop)
                    if idx == n - 1:
                        add(op="canonicalise", cls=cls, kinds=kinds, bonds=bonds, qn=qn, qntot=qntot, qnidx=n - 1, to_right=False)
                        if n > 2:
                            for stop in range(0, n):
                                add(op="canonicalise", cls=cls, kinds=kinds, bonds=bonds, qn=qn, qntot=qntot, qnidx=n - 1, to_right=False, stop=stop)
                        if n == 2 or tier == "thorough":
                            add(op="compress", cls=cls, kinds=kinds, bonds=bonds, qn=qn, qntot=qntot, qnidx=n - 1, to_right=False)
                            add(op="compress", cls=cls, kinds=kinds, bonds=bonds, qn=qn, qntot=qntot, qnidx=n - 1, to_right=False, temp_list=True)
                    if cls == "mps" and n <= 3:
                        add(op="ensure_left", cls=cls, kinds=kinds, bonds=bonds, qn=qn, qntot=qntot, qnidx=idx, to_right=(idx == 0))
                        add(op="ensure_right", cls=cls, kinds=kinds, bonds=bonds, qn=qn, qntot=qntot, qnidx=idx, to_right=(idx == 0))
    # longer chains with thin bonds: centre / direction bookkeeping of partial sweeps (every stop site, both directions)
    for kinds, bonds in [(("e", "e", "e", "e"), (1, 1, 2, 1, 1)), (("e", "e", "e", "e", "e"), (1, 1, 1, 1, 1, 1))]:
        n = len(kinds)
        for qnidx, to_right in ((0, True), (n - 1, False)):
            for qn in cs.label_sets("mps", kinds, bonds, 1, qnidx, 1, seed):
                add(op="canonicalise", cls="mps", kinds=kinds, bonds=bonds, qn=qn, qntot=1, qnidx=qnidx, to_right=to_right)
                for stop in range(0, n):
                    add(op="canonicalise", cls="mps", kinds=kinds, bonds=bonds, qn=qn, qntot=1, qnidx=qnidx, to_right=to_right, stop=stop)
    for n in ((1, 2, 3, 4, 5, 6, 7, 8) if tier == "quick" else range(1, 13)):
        out.append(dict(op="loop", n=n, label="loop coverage site_num=%d" % n, key="loop"))
    return out


def lib_short(qn):
    return str([[r[0] for r in q] for q in qn]).replace(" ", "")


def make_harness(P):
    if P["op"] == "loop":
        return make_loop_harness(P)

    def h(ctx):
        from symnum import stubs
        model, mp = cs.build(ctx, P)
        n = mp.site_num
        op = P["op"]
        undo = None
        if ctx.symbolic:
            _, undo = stubs.lapack_contract(ctx, modules=("renormalizer.mps.svd_qn",))
        before = lib.dense_of(mp)
        if ctx.symbolic and all((hasattr(x, "const_value") and x.const_value() == 0) or (not hasattr(x, "const_value") and x == 0) for x in np.asarray(before).ravel()):
            return      # label structure that can only represent the ZERO object (no label path from one end to the other): nothing to canonicalise, svd_qn has no block
        if (not ctx.symbolic) and not np.any(np.asarray(before)):
            return
        bonds_before = list(mp.bond_dims)
        caps = cs.bond_caps(mp)
        old_arrays = [mp[i].array for i in range(n)]
        qntot_before = np.array(mp.qntot).copy()
        try:
            if op == "push_cano":
                idx = P["qnidx"]
                mp._push_cano(idx)
                nxt = idx + 1 if P["to_right"] else idx - 1
                ctx.check("push_cano: dense object unchanged", ctx.eq(lib.dense_of(mp), before))
                ctx.check("push_cano: left site is an isometry in the sweep direction", cs.isometry_relation(ctx, mp[idx].array, left=P["to_right"], upto_scale=mp.is_mpo))
                ctx.check("push_cano: invariant with centre moved", ctx.all([lib.inv_relation(ctx, mp), mp.qnidx == nxt]))
                ctx.check("push_cano: bond not grown and within physical cap",
                          ctx.all([mp.bond_dims[k] <= bonds_before[k] and mp.bond_dims[k] <= caps[k] for k in (max(idx, nxt),)]))
                ctx.check("push_cano: other sites untouched", all(mp[i].array is old_arrays[i] for i in range(n) if i not in (idx, nxt)))
                ctx.check("push_cano: sector unchanged", lib.ctx_eq_labels(ctx, mp.qntot, qntot_before))
            elif op in ("canonicalise", "compress"):
                stop = P.get("stop")
                if op == "canonicalise":
                    ret = mp.canonicalise(stop_idx=stop) if stop is not None else mp.canonicalise()
                else:
                    from renormalizer.utils import CompressConfig, CompressCriteria
                    mp.compress_config = CompressConfig(CompressCriteria.fixed, max_bonddim=64)
                    if P.get("temp_list"):
                        # per-bond limits equal to the current bond dimensions (non-uniform whenever the bonds differ; boundary entries 1): still lossless
                        ret = mp.compress(temp_m_trunc=list(mp.bond_dims))
                    else:
                        ret = mp.compress()
                ctx.check(op + ": returns self", ret is mp)
                ctx.check(op + ": dense object unchanged", ctx.eq(lib.dense_of(mp), before))
                full = stop is None
                if P["to_right"]:
                    last = (n - 1) if full else stop
                    iso_sites = list(range(0, max(last, 0)))
                    exp_centre = n - 1 if full else max(stop, 0)
                else:
                    last = 0 if full else stop
                    iso_sites = list(range(n - 1, min(last, n - 1), -1))
                    exp_centre = 0 if full else min(stop, n - 1)
                conds = [cs.isometry_relation(ctx, mp[i].array, left=P["to_right"], upto_scale=("orthogonal" if op == "compress" else True) if mp.is_mpo else False)
                         for i in iso_sites]
                ctx.check(op + ": every site passed is an isometry in the sweep direction", ctx.all(conds))
                ctx.check(op + ": invariant holds, centre where advertised", ctx.all([lib.inv_relation(ctx, mp), mp.qnidx == exp_centre]))
                swept_all = full or (P["to_right"] and stop == n - 1) or ((not P["to_right"]) and stop == 0)
                ctx.check(op + ": direction switched iff the sweep reached the end", mp.to_right == (P["to_right"] != bool(swept_all)))
                ctx.check(op + ": no bond grown, none above the physical cap on the swept part",
                          all(mp.bond_dims[k] <= bonds_before[k] for k in range(n + 1))
                          and all(mp.bond_dims[k] <= (caps_one_sided(mp, k, P["to_right"])) for k in swept_bonds(n, P["to_right"], stop)))
                ctx.check(op + ": sector unchanged", lib.ctx_eq_labels(ctx, mp.qntot, qntot_before))
            elif op in ("ensure_left", "ensure_right"):
                ret = mp.ensure_left_canonical() if op == "ensure_left" else mp.ensure_right_canonical()
                ctx.check(op + ": dense object unchanged", ctx.eq(lib.dense_of(mp), before))
                ctx.check(op + ": invariant", lib.inv_relation(ctx, mp))
                if op == "ensure_left":
                    ctx.check(op + ": left canonical", ctx.all([cs.isometry_relation(ctx, mp[i].array, left=True) for i in range(n - 1)] + [mp.qnidx == n - 1, mp.to_right is False]))
                else:
                    ctx.check(op + ": right canonical", ctx.all([cs.isometry_relation(ctx, mp[i].array, left=False) for i in range(1, n)] + [mp.qnidx == 0, mp.to_right is True]))
        finally:
            if undo:
                undo()
    return h


def swept_bonds(n, to_right, stop):
    if to_right:
        last = n - 1 if stop is None else stop
        return list(range(1, last + 1))
    last = 0 if stop is None else stop
    return list(range(n - 1, last, -1))


def caps_one_sided(mp, k, to_right):
    """after a sweep towards the right, bond k cannot exceed the product of physical dims on its left (and vice versa)"""
    d = 1
    rng = range(0, k) if to_right else range(k, mp.site_num)
    for i in rng:
        for s in mp[i].shape[1:-1]:
            d *= s
    return d


# ------------------------------------------------------------------ loop coverage over symbolic integers
def make_loop_harness(P):
    n = P["n"]

    def h(ctx):
        from renormalizer.mps import Mps
        from symnum import sym as S

        mp = Mps()
        mp._mp = [None] * n
        q = ctx.integer("qnidx")
        ctx.assume(ctx.all([ctx.le(0, q), ctx.le(q, n - 1)]), "0<=qnidx<n")
        qv = ctx.explorer.concretize(q, 0, n - 1) if ctx.symbolic else q
        to_right = bool(ctx.boolean("to_right"))
        full = bool(ctx.boolean("full"))
        has_stop = bool(ctx.boolean("has_stop"))
        stop = None
        if has_stop:
            s = ctx.integer("stop")
            ctx.assume(ctx.all([ctx.le(0, s), ctx.le(s, n - 1)]), "0<=stop<n")
            stop = ctx.explorer.concretize(s, 0, n - 1) if ctx.symbolic else s
        mp.qnidx = qv
        mp.to_right = to_right
        got = list(mp.iter_idx_list(full=full, stop_idx=stop))
        if to_right:
            last = stop if stop is not None else (n if full else n - 1)
            exp = list(range(qv, last))
        else:
            last = stop if stop is not None else (-1 if full else 0)
            exp = list(range(qv, last, -1))
        ctx.check("iter_idx_list visits exactly the sites from the centre up to (excluding) the target, in sweep order, once", got == exp)
        ctx.check("iter_idx_list stays inside the chain", all(0 <= i < n for i in got))
        mp._switch_direction()
        ctx.check("_switch_direction flips direction and parks the centre at the end it reached",
                  mp.to_right == (not to_right) and mp.qnidx == (n - 1 if to_right else 0))
    return h


def main(tier, seed):
    from renormalizer.mps import mp as mpmod, svd_qn as sq
    MP = mpmod.MatrixProduct
    return common.run_check(
        PROP, "checks.c04", tier, seed,
        explanation="Real _push_cano / canonicalise(stop_idx) / compress (bond limit 64 = lossless) / ensure_left|right_canonical on Mps, Mpo and MpDm chains of "
                    "2-3 (thorough 4) sites whose label-allowed entries and prefactor are solver variables; LAPACK by contract. Enumerated: bond dims, physical dims 2-3, "
                    "a strided subset of all label assignments (repeated labels included), every centre position, both directions, every stop site. Obligations: dense "
                    "object unchanged, isometry of the sites passed, invariant re-established with the centre where advertised, bonds not grown / within the physical "
                    "cap, direction switch, other sites untouched. iter_idx_list/_switch_direction over symbolic (qnidx, to_right, full, stop_idx) for site_num <= 8 (12).",
        assumptions=["LAPACK by contract (symnum/stubs.py): isometry and reconstruction are statements about the glue; LAPACK's accuracy is trusted",
                     "variational_compress convergence is a float fixed-point claim and is NOT covered (DESIGN.md section 2)",
                     "real-valued tensors in the quick tier", "chains longer than the enumerated ones follow by the one-step induction + loop coverage, not by execution",
                     "idempotence follows from the step lemma (a second sweep is a sequence of steps each of which preserves the object)"],
        trusted_base=["z3 5.1", "NumPy object loops", "LAPACK contract stubs"],
        functions=[MP.canonicalise, MP._push_cano, MP._update_ms, MP.compress, MP._get_big_qn, MP._switch_direction, MP.iter_idx_list,
                   MP.ensure_left_canonical, MP.ensure_right_canonical, MP.check_left_canonical, MP.check_right_canonical, sq.svd_qn])


if __name__ == "__main__":
    import argparse
    ap = argparse.ArgumentParser()
    ap.add_argument("--tier", default=os.environ.get("VERIF_TIER", "quick"))
    a = ap.parse_args()
    sys.exit(main(a.tier, int(os.environ.get("VERIF_SEED", "0"))))
