"""C14 - saved states reload identically; the periodic result dump survives a crash.

(a) Crash safety.  The real TdMpsJob.dump_dict runs against a model file system (module-local `os`
    and `np.savez` of utils/tdmps.py): a file is absent / partial / complete(step).  The crash instant k
    (the k-th file-system effect raises) and the PRE-STATE of the directory - result file and backup each
    absent, partial or complete - are solver-chosen integers constrained only by the invariant "a complete
    file exists" (so the step is inductive over histories of any length, restarts into a crashed directory
    included).  Obligations: after a crash a complete file of the current or a previous step still exists;
    after a completed call the new complete file exists and no stale backup is left.
(b) Round trip.  MatrixProduct.dump/load, Mps.dump/load (format 0.4 and the older version branches),
    MpDm, with np.savez/np.load replaced by an in-memory store: symbolic tensors, labels, centre,
    direction and prefactor come back identical, every key read was written.
"""
import itertools
import os
import sys

VERIF = os.path.dirname(os.path.dirname(os.path.abspath(__file__)))
sys.path.insert(0, VERIF)
REPO = os.environ.get("VERIF_REPO", "/repo")
sys.path.insert(0, REPO)

import numpy as np  # noqa: E402
from checks import common, lib, chainsteps as cs  # noqa: E402

PROP = "C14"
RUN_OPTS = dict(max_paths=3000, budget_s=30.0)

ABSENT, PARTIAL, COMPLETE = 0, 1, 2


def instances(tier, seed):
    out = []
    for dump_mps in (None, "one", "all"):
        for first in (False, True):
            out.append(dict(op="crash", dump_mps=dump_mps, first=first, label="crash-safety dump_mps=%s first_step=%s" % (dump_mps, first),
                            key="crash" + ("/first" if first else "")))
    out.append(dict(op="crash_seq", label="two consecutive dumps with a crash in either and a restart", key="crash/sequence"))
    structs = [("mps", ("e", "e"), (1, 2, 1)), ("mps", ("e", "w", "e"), (1, 2, 2, 1)), ("mpdm", ("e", "e"), (1, 2, 1)), ("mpo", ("e", "e"), (1, 2, 1))]
    if tier == "thorough":
        structs += [("mps", ("e", "e", "e", "e"), (1, 2, 2, 2, 1)), ("mps", ("E2", "E2", "E2"), (1, 2, 2, 1))]
    for cls, kinds, bonds in structs:
        n = len(kinds)
        for idx in range(n):
            if "E2" in kinds:
                qns = [[[[0, 0]], [[0, 0], [1, 0]], [[1, 0], [1, 1]], [[0, 0]]]] if idx == n - 1 else []
            else:
                qns = cs.label_sets(cls, kinds, bonds, 1 if cls != "mpo" else 0, idx, 1, seed)
            for qn in qns:
                for kind in ("real", "cplx"):
                    for via in (("generic", "mps") if cls in ("mps", "mpdm") else ("generic",)):
                        out.append(dict(op="roundtrip", cls=cls, kinds=kinds, bonds=bonds, qn=qn, qntot=(1 if cls != "mpo" else 0), qnidx=idx, to_right=(idx == 0), kind=kind, via=via,
                                        label="roundtrip %s %s idx=%d %s via=%s" % (cls, "".join(kinds), idx, kind, via), key="roundtrip/%s" % cls))
    for ver in ("0.1", "0.2", "0.3"):
        out.append(dict(op="oldversion", version=ver, label="load of dump format %s" % ver, key="roundtrip/old"))
    # long thin chains: 11 and 12 sites (more than 10 bonds - everything that enumerates, sorts or formats per-bond keys is exercised beyond one digit), bond
    # dimension 1-2, a different label on (almost) every bond
    for n in (11, 12):
        kinds = tuple(["e"] * n)
        bonds = tuple([1] + [2 if 0 < i < n and i % 4 == 2 else 1 for i in range(1, n)] + [1])
        qn = [[[0]]]
        for i in range(1, n):
            lab = (i + 1) // 2
            qn.append([[lab]] if bonds[i] == 1 else [[lab], [lab - 1 if lab > 0 else lab + 1]])
        qn.append([[0]])
        for cls in ("mps", "mpdm"):
            out.append(dict(op="roundtrip", cls=cls, kinds=kinds, bonds=bonds, qn=qn, qntot=(n + 1) // 2, qnidx=n - 1, to_right=False, kind="real", via="mps",
                            label="roundtrip %s %d-site thin chain (more than 10 bonds)" % (cls, n), key="roundtrip/%s/long" % cls))
    # float build: what is stored depends on NumPy dtypes (real matrices with a complex prefactor, complex matrices with a real prefactor, ...), which the
    # object backend cannot tell apart - one concrete run per dtype combination
    for cls in ("mps", "mpdm"):
        kinds, bonds = ("e", "e"), (1, 2, 1)
        qn = cs.label_sets(cls, kinds, bonds, 1, 1, 1, seed)[0]
        for kind in ("real", "cplx"):
            for cf in ("real", "complex", "imaginary"):
                out.append(dict(op="roundtrip", cls=cls, kinds=kinds, bonds=bonds, qn=qn, qntot=1, qnidx=1, to_right=False, kind=kind, via="mps", coeff_kind=cf, concrete=True,
                                label="[float build] roundtrip %s %s matrices with a %s prefactor" % (cls, kind, cf), key="roundtrip/floatbuild/%s" % cls))
    return out


# ------------------------------------------------------------------ model file system
class Crash(Exception):
    pass


class ModelFS:
    def __init__(self, state, crash_at):
        self.files = dict(state)    # path -> (status, stamp)
        self.count = 0
        self.crash_at = crash_at
        self.log = []

    def _tick(self, what):
        self.count += 1
        self.log.append(what)
        if self.crash_at is not None and self.count == self.crash_at:
            raise Crash(what)

    # os.path / os
    def exists(self, p):
        return self.files.get(p, (ABSENT, None))[0] != ABSENT

    def remove(self, p):
        if not self.exists(p):
            raise FileNotFoundError(p)
        self._tick("remove " + os.path.basename(p))
        self.files.pop(p)

    def rename(self, a, b):
        if not self.exists(a):
            raise FileNotFoundError(a)
        self._tick("rename %s -> %s" % (os.path.basename(a), os.path.basename(b)))
        self.files[b] = self.files.pop(a)

    def replace(self, a, b):
        if not self.exists(a):
            raise FileNotFoundError(a)
        self._tick("replace %s -> %s" % (os.path.basename(a), os.path.basename(b)))   # atomic: either not yet or fully done
        self.files[b] = self.files.pop(a)

    def makedirs(self, *a, **k):
        pass

    def savez(self, p, stamp):
        if not p.endswith(".npz"):
            p = p + ".npz"
        self._tick("create " + os.path.basename(p))        # crash here: nothing written yet (old content untouched)
        self.files[p] = (PARTIAL, stamp)
        self._tick("write " + os.path.basename(p))         # crash here: file is there but incomplete
        self.files[p] = (COMPLETE, stamp)


def run_dump(job_cls, fs, stamp, dump_mps, nsteps_done):
    """one real dump_dict call against the model file system"""
    from renormalizer.utils import tdmps

    class OsPath:
        exists = staticmethod(fs.exists)
        join = staticmethod(os.path.join)

    class OsP:
        path = OsPath
        remove = staticmethod(fs.remove)
        rename = staticmethod(fs.rename)
        replace = staticmethod(fs.replace)
        makedirs = staticmethod(fs.makedirs)

    class NpP:
        def __getattr__(self, item):
            return getattr(np, item)

        @staticmethod
        def savez(p, **d):
            fs.savez(p, stamp)

    class FakeMps:
        def dump(self, path):
            fs.savez(path, stamp)

    job = job_cls.__new__(job_cls)
    job.dump_dir = "/out"
    job.job_name = "job"
    job._dump_mps = dump_mps
    job.evolve_times = list(range(nsteps_done + 1))
    job.latest_mps = FakeMps()
    job.get_dump_dict = lambda: {"step": stamp}
    saved = (tdmps.os, tdmps.np)
    tdmps.os, tdmps.np = OsP, NpP()
    try:
        job.dump_dict()
    finally:
        tdmps.os, tdmps.np = saved


def make_harness(P):
    op = P["op"]
    if op == "roundtrip":
        return make_roundtrip(P)
    if op == "oldversion":
        return make_oldversion(P)

    def h(ctx):
        from renormalizer.utils.tdmps import TdMpsJob
        F, B = "/out/job.npz", "/out/job.npz.bak"

        def conc(name, lo, hi, default):
            v = ctx.integer(name, default)
            ctx.assume(ctx.all([ctx.le(lo, v), ctx.le(v, hi)]), name + " range")
            return ctx.explorer.concretize(v, lo, hi) if ctx.symbolic else int(v)

        if op == "crash":
            fstat = conc("file_status", 0, 2, COMPLETE)
            bstat = conc("backup_status", 0, 2, ABSENT)
            if P["first"]:
                # very first dump of a job: nothing complete needs to exist beforehand
                pass
            else:
                ctx.assume(fstat == COMPLETE or bstat == COMPLETE, "invariant: a complete result file exists before the step")
            k = conc("crash_at", 1, 9, 3)
            state = {}
            if fstat != ABSENT:
                state[F] = (fstat, "old")
            if bstat != ABSENT:
                state[B] = (bstat, "older")
            fs = ModelFS(state, k)
            had_complete = (fstat == COMPLETE or bstat == COMPLETE)
            crashed = False
            try:
                run_dump(TdMpsJob, fs, "new", P["dump_mps"], 3)
            except Crash:
                crashed = True
            complete = [p for p in (F, B) if fs.files.get(p, (ABSENT,))[0] == COMPLETE]
            if crashed:
                if had_complete:
                    ctx.check("after a crash at any instant a complete result file (current or previous step) exists", len(complete) >= 1,
                              info=dict(log=fs.log))
            else:
                ctx.check("after a completed dump the result file is the new complete one", fs.files.get(F) == (COMPLETE, "new"))
                ctx.check("after a completed dump no backup is left behind", B not in fs.files)
        else:
            # two steps, a crash somewhere in the first one, then the job is restarted and dumps again with a crash somewhere
            k1 = conc("crash1", 1, 9, 3)
            k2 = conc("crash2", 1, 12, 2)
            fs = ModelFS({F: (COMPLETE, "s0")}, k1)
            try:
                run_dump(TdMpsJob, fs, "s1", None, 1)
            except Crash:
                pass
            fs.crash_at = fs.count + k2
            crashed = False
            try:
                run_dump(TdMpsJob, fs, "r1", None, 1)
            except Crash:
                crashed = True
            complete = [p for p in (F, B) if fs.files.get(p, (ABSENT,))[0] == COMPLETE]
            ctx.check("restart into a crashed directory: a complete result file exists whenever the process dies", len(complete) >= 1 if crashed else fs.files.get(F) == (COMPLETE, "r1"),
                      info=dict(log=fs.log))
    return h


# ------------------------------------------------------------------ round trip
class Store:
    """in-memory np.savez / np.load"""

    def __init__(self):
        self.files = {}
        self.read = {}

    def savez(self, fname, **d):
        self.files[fname] = {k: (v.copy() if isinstance(v, np.ndarray) else np.array(v)) for k, v in d.items()}

    def load(self, fname, allow_pickle=False):
        store = self
        data = self.files[fname]

        class L:
            def __getitem__(self_, k):
                store.read.setdefault(fname, set()).add(k)
                return data[k]

            def __contains__(self_, k):
                return k in data

            @property
            def files(self_):
                return list(data)
        return L()


def make_roundtrip(P):
    def h(ctx):
        from renormalizer.mps import Mps, Mpo, MpDm, mp as mpmod, mps as mpsmod
        model, a = cs.build(ctx, P, kind=P["kind"])
        if P["kind"] == "cplx" and hasattr(a, "coeff"):
            a.coeff = ctx.cplx("coeff", 0.6 - 0.8j)
        if P.get("coeff_kind"):
            a.coeff = {"real": -1.3, "complex": 0.6 - 0.8j, "imaginary": 0.9j}[P["coeff_kind"]]
        st = Store()

        class NpP:
            def __getattr__(self, item):
                return getattr(mpmod_np, item)
            savez = staticmethod(st.savez)
            load = staticmethod(st.load)
        mpmod_np = mpmod.np
        saved = (mpmod.np, mpsmod.np)
        mpmod.np = NpP()
        mpsmod.np = NpP()
        try:
            cls = {"mps": Mps, "mpo": Mpo, "mpdm": MpDm}[P["cls"]]
            a.dump("state.npz")
            if P["via"] == "mps":
                b = cls.load(model, "state.npz")
            else:
                from renormalizer.mps.mp import MatrixProduct
                # generic loader (what Mpo inherits); needs the sub-class for _get_sigmaqn, so call the base implementation on the class
                b = MatrixProduct.load.__func__(cls, model, "state.npz")
        finally:
            mpmod.np, mpsmod.np = saved
        n = a.site_num
        ctx.check("dump wrote a file and load read only keys that were written", "state.npz" in st.files and st.read.get("state.npz", set()) <= set(st.files["state.npz"]))
        ctx.check("tensors identical", ctx.all([ctx.eq(b[i].array, a[i].array) for i in range(n)]) if b.site_num == n else False)
        ctx.check("labels identical", len(b.qn) == len(a.qn) and ctx.all([lib.ctx_eq_labels(ctx, np.asarray(x), np.asarray(y)) for x, y in zip(b.qn, a.qn)]))
        ctx.check("centre, direction, sector identical", b.qnidx == a.qnidx and b.to_right == a.to_right and lib.ctx_eq_labels(ctx, b.qntot, a.qntot))
        if P["via"] == "mps":
            ctx.check("prefactor identical", ctx.eq(b.coeff, a.coeff))
            if n <= 6:      # (long thin chains: tensors, labels and prefactor are compared one by one; the dense object would have 2^n .. 4^n entries)
                ctx.check("represented object identical", ctx.eq(lib.dense_of(b), lib.dense_of(a)))
        ctx.check("invariant transfers", lib.inv_relation(ctx, b))
    return h


def make_oldversion(P):
    def h(ctx):
        from renormalizer.mps import Mps, mp as mpmod, mps as mpsmod
        Pd = dict(cls="mps", kinds=("e", "e"), bonds=(1, 2, 1), qn=[[[0]], [[0], [1]], [[0]]], qntot=1, qnidx=1, to_right=False)
        model, a = cs.build(ctx, Pd)
        st = Store()
        d = {"version": P["version"], "nsites": 2, "mt_0": a[0].array, "mt_1": a[1].array, "qnidx": 1, "qntot": np.array([1])}
        arr = np.empty(3, object)
        arr[:] = [np.array(q) for q in Pd["qn"]]
        d["qn"] = arr
        c = ctx.real("c", 0.7)
        if P["version"] == "0.1":
            d["left"] = False
        elif P["version"] == "0.2":
            d["to_right"] = False
            d["tdh_wfns"] = np.array([0.3, c], dtype=object if ctx.symbolic else float)
        else:
            d["to_right"] = False
            d["coeff"] = np.array(c)
        st.savez("old.npz", **d)

        class NpP:
            def __getattr__(self, item):
                return getattr(np, item)
            load = staticmethod(st.load)
        saved = mpsmod.np
        real_np = mpsmod.np
        mpsmod.np = NpP()
        try:
            b = Mps.load(model, "old.npz")
        finally:
            mpsmod.np = saved
        ctx.check("old format: tensors, centre, direction", ctx.all([ctx.eq(b[i].array, a[i].array) for i in range(2)]) and b.qnidx == 1 and b.to_right is False)
        exp_c = 1 if P["version"] == "0.1" else c
        ctx.check("old format: prefactor as documented for that version", ctx.eq(b.coeff, exp_c))
    return h


def main(tier, seed):
    from renormalizer.utils import tdmps
    from renormalizer.mps import mp as mpmod, mps as mpsmod
    return common.run_check(
        PROP, "checks.c14", tier, seed,
        explanation="(a) The real TdMpsJob.dump_dict against a model file system whose pre-state (result file and backup each absent/partial/complete) and crash instant are "
                    "solver-chosen integers constrained only by the invariant 'a complete file exists': after a crash a complete file remains, after completion exactly the new "
                    "file remains; plus a two-step history with a restart. dump_mps None/one/all. (b) MatrixProduct/Mps/MpDm/Mpo dump->load with np.savez/np.load replaced by an "
                    "in-memory store on states with symbolic real and complex tensors and prefactor, every centre position, one- and two-component labels; format versions 0.1-0.3.",
        assumptions=["np.savez is modelled as create-empty -> partial -> complete with a possible crash before each effect; rename/remove are atomic",
                     "NumPy's own serialisation is not covered (in-memory store)", "the spill-to-disk path of large matrices (_array2mt) is not covered",
                     "tree states: the TTNS dump/load round trip is checked with the tree harnesses (C11 evidence) when available"],
        trusted_base=["z3 5.1", "model file system in checks/c14.py"],
        functions=[tdmps.TdMpsJob.dump_dict, mpmod.MatrixProduct.dump, mpmod.MatrixProduct.load, mpsmod.Mps.dump, mpsmod.Mps.load])


if __name__ == "__main__":
    import argparse
    ap = argparse.ArgumentParser()
    ap.add_argument("--tier", default=os.environ.get("VERIF_TIER", "quick"))
    a = ap.parse_args()
    sys.exit(main(a.tier, int(os.environ.get("VERIF_SEED", "0"))))
