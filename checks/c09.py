"""C09 - real-time evolution: the propagation-and-compression schemes compute exactly their own
integrator map (TDVP accuracy / conservation claims are not decidable by this family, see DESIGN.md 2).

With canonicalise/compress replaced by the identity (assume-guarantee: C04/C05 show they preserve the
object when the bond limit suffices), the real Mps.evolve runs on fully symbolic states, operators and
time step dt:
  * Taylor P&C          :  psi' = sum_k c_k (-i dt H)^k psi        with the code's own c_k (C19: = 1/k!)
  * RK4 / general RK    :  psi' = psi + dt sum_i b_i k_i,  k_i = -i H(t0 + c_i dt)(psi + dt sum_j a_ij k_j)
                           for every non-embedded tableau, constant H and a callable H(t) = H0 + t H1
  * adaptive embedded pairs (RKF45, Cash-Karp): the step controller's error estimate is an arbitrary positive
    number (solver variable); a time-dependent callable logs (t0, start state, sub-step) of every trial; the
    obligations are the bookkeeping ones: a rejected trial leaves the state untouched, an accepted one advances
    state and time together by exactly the RK map, the accepted sub-steps add up to the requested time.
Together with C19 this is "within the scheme's own error order"; splitting t into several calls composes by
the same map.
"""
import os
import sys

VERIF = os.path.dirname(os.path.dirname(os.path.abspath(__file__)))
sys.path.insert(0, VERIF)
REPO = os.environ.get("VERIF_REPO", "/repo")
sys.path.insert(0, REPO)

import numpy as np  # noqa: E402
from checks import common, lib  # noqa: E402

PROP = "C09"
RUN_OPTS = dict(max_paths=3000, budget_s=60.0)

NONEMBEDDED = ["Forward_Euler", "midpoint_RK2", "Heun_RK2", "Ralston_RK2", "Kutta_RK3", "C_RK4", "38rule_RK4", "Fehlberg5"]


def instances(tier, seed):
    out = []
    for n, sb, ob in ([(2, 2, 2)] if tier == "quick" else [(2, 2, 2), (3, 2, 2)]):
        for order in ((1, 2, 4) if tier == "quick" else ((1, 2, 3, 4) if n == 2 else (1, 2))):      # order 5 on 2 sites / order >= 3 on 3 sites: term blow-up (memory cap)
            out.append(dict(op="taylor", n=n, sbond=sb, obond=ob, order=order, imag=False, label="taylor n=%d order=%d" % (n, order), key="taylor"))
    for td in (False, True):
        out.append(dict(op="rk4", n=2, sbond=2, obond=(1 if td else 2), td=td, imag=False, label="tdrk4 n=2 time-dependent=%s" % td, key="rk4"))
    for m in NONEMBEDDED:
        stages = {"Forward_Euler": 1, "midpoint_RK2": 2, "Heun_RK2": 2, "Ralston_RK2": 2, "Kutta_RK3": 3, "C_RK4": 4, "38rule_RK4": 4, "Fehlberg5": 6}[m]
        for td in (False, True):
            small = stages >= 4
            out.append(dict(op="rk", method=m, n=2, sbond=(1 if small else 2), obond=(1 if (small or td) else 2), td=td, imag=False,
                            label="tdrk %s n=2 time-dependent=%s" % (m, td), key="rk/%s" % m))
    for m in ("RKF45", "Cash-Karp45"):
        out.append(dict(op="adaptive", method=m, max_trials=2, label="adaptive %s: accept/reject bookkeeping (<= 2 trials)" % m, key="adaptive/%s" % m, run_opts=dict(max_paths=6000)))
    for order in ((2,) if tier == "quick" else (2, 3)):      # order 4 with three trials: memory cap
        out.append(dict(op="adaptive_taylor", order=order, max_trials=(3 if order == 2 else 2), label="adaptive Taylor P&C order %d: every trial (<= %d per call) applies the polynomial of ITS step to the state it started from" % (order, 3 if order == 2 else 2),
                        key="adaptive/taylor", run_opts=dict(max_paths=6000, budget_s=120.0)))
    # variable-mean-field scheme: the right-hand side handed to the ODE solver against the gauge-fixed TDVP equations (matrix form, dense blocks)
    # (n=3 with force_ovlp, n=3 complex: memory cap while building terms - outside the bound)
    vmf = [(2, False, "real", 2), (2, True, "real", 1)]
    if tier == "thorough":
        vmf += [(2, True, "real", 2), (3, False, "real", 1), (2, False, "cplx", 2), (2, True, "cplx", 1), (3, False, "real", 2)]
    for n_, force, kind, ob in vmf:
        # small solver budget: the obligations are decided by normal form; what the budget buys is only the satisfiability of the path condition (eigen-decomposition
        # contracts of polynomial matrices), which z3 does not find - the float-build twin below is the reachability witness of the same harness key
        out.append(dict(op="vmf", force=force, kind=kind, n=n_, obond=ob, run_opts=dict(max_paths=400, budget_s=8.0), limit_s=900,
                        label="tdvp_vmf right-hand side n=%d bond 2 operator bond %d force_ovlp=%s %s state" % (n_, ob, force, kind), key="vmf/%s" % ("force_ovlp" if force else "canonical")))
    out.append(dict(op="vmf", force=False, kind="real", n=2, obond=2, method="tdvp_mu_vmf", run_opts=dict(max_paths=400, budget_s=8.0), limit_s=900,
                    label="tdvp_mu_vmf right-hand side n=2 bond 2 operator bond 2 real state", key="vmf/mu"))
    # (complex two-site state with the SVD contract: memory cap - the float-build twins carry the complex case)
    for kind in ("real", "cplx"):
        out.append(dict(op="vmf", force=False, kind=kind, n=3, obond=2, method="tdvp_mu_vmf", concrete=True,
                        label="[float build] tdvp_mu_vmf right-hand side n=3 bond 2 operator bond 2 %s state (real LAPACK; reachability witness)" % kind, key="vmf/mu"))
    for force in (False, True):
        for kind in ("real", "cplx"):
            out.append(dict(op="vmf", force=force, kind=kind, n=3, obond=2, concrete=True,
                            label="[float build] tdvp_vmf right-hand side n=3 bond 2 operator bond 2 force_ovlp=%s %s state (real LAPACK; reachability witness)" % (force, kind),
                            key="vmf/%s" % ("force_ovlp" if force else "canonical")))
    out.append(dict(op="dispatch", label="Mps.evolve dispatch table and normalisation switch", key="dispatch"))
    # the real projector-splitting sweeps of the chain with the local Krylov propagator replaced by a contract stub
    chains = [(("e", "e"), (1, 2, 1)), (("e", "e", "e"), (1, 2, 2, 1))]
    if tier == "thorough":
        chains += [(("e", "w", "e"), (1, 2, 2, 1)), (("e", "e", "e", "e"), (1, 2, 2, 2, 1))]
    # bond dimension 1 (product states): the zero-site step of a 1 x 1 bond matrix is still a propagation
    for kinds, bonds in ((("e", "e"), (1, 1, 1)), (("e", "e", "e"), (1, 1, 1, 1))):
        for method in ("tdvp_ps", "tdvp_ps2"):
            for start in ("left", "right"):
                out.append(dict(op="tdvp_sweep", kinds=kinds, bonds=bonds, method=method, start=start, local="arbitrary", imag=False, hop=False, run_opts=dict(budget_s=120.0),
                                label="chain %s sweep %s bond dimension 1 centre starts %s local=arbitrary" % (method, "".join(kinds), start), key="sweep/%s/bond1" % method))
    for kinds, bonds in chains:
        for method in ("tdvp_ps", "tdvp_ps2"):
            for start in ("left", "right"):
                for local in ("arbitrary", "identity"):
                    for imag in ((False, True) if (local == "arbitrary" and len(kinds) == 3) or tier == "thorough" else (False,)):
                        out.append(dict(op="tdvp_sweep", kinds=kinds, bonds=bonds, method=method, start=start, local=local, imag=imag, run_opts=dict(budget_s=120.0),
                                        label="chain %s sweep %s centre starts %s local=%s imag=%s" % (method, "".join(kinds), start, local, imag), key="sweep/%s" % method))
                        if local == "arbitrary" and "w" not in kinds and (len(kinds) == 2 or (tier == "thorough" and len(kinds) == 3)):
                            # hopping blocks: local operators that are not symmetric in their physical indices (all-zero operator labels allow only diagonal ones on electron sites)
                            out.append(dict(op="tdvp_sweep", kinds=kinds, bonds=bonds, method=method, start=start, local=local, imag=imag, hop=True, run_opts=dict(budget_s=120.0),
                                            label="chain %s sweep %s centre starts %s local=%s imag=%s hopping operator" % (method, "".join(kinds), start, local, imag), key="sweep/%s/hop" % method))
            # the same sweeps with an ODE solver instead of Krylov for the local problems (ivp_solver != "krylov"): the right-hand side handed to solve_ivp
            if len(kinds) == 3 or tier == "thorough":
                for imag in (False, True):
                    out.append(dict(op="tdvp_sweep", kinds=kinds, bonds=bonds, method=method, start="left", local="arbitrary", imag=imag, ivp=True, run_opts=dict(budget_s=120.0),
                                    label="chain %s sweep %s local ODE solver imag=%s" % (method, "".join(kinds), imag), key="sweep/%s/ivp" % method))
    return out


def sym_state(ctx, model, n, sb, name="a", kind="real"):
    from renormalizer.mps import Mps
    bonds = [1] + [sb] * (n - 1) + [1]
    m = Mps()
    m.model = model
    if (not ctx.symbolic) and kind == "cplx":
        m.to_complex(inplace=True)
    for i in range(n):
        m.append(ctx.array("%s%d" % (name, i), (bonds[i], model.pbond_list[i], bonds[i + 1]), kind))
    m.build_empty_qn()
    m.coeff = 1
    return m


def sym_op(ctx, model, n, ob, name="o"):
    from renormalizer.mps import Mpo
    bonds = [1] + [ob] * (n - 1) + [1]
    o = Mpo()
    o.model = model
    for i in range(n):
        o.append(ctx.array("%s%d" % (name, i), (bonds[i], model.pbond_list[i], model.pbond_list[i], bonds[i + 1]), "real"))
    o.build_empty_qn()
    o.offset = 0.0
    return o


class IdentityCompression:
    """canonicalise / compress = identity on the represented object (what C04/C05 establish at sufficient bond dimension)"""

    def __enter__(self):
        from renormalizer.mps.mp import MatrixProduct
        self.MP = MatrixProduct
        self.saved = (MatrixProduct.canonicalise, MatrixProduct.compress)
        MatrixProduct.canonicalise = lambda self_, stop_idx=None: self_
        MatrixProduct.compress = lambda self_, temp_m_trunc=None, ret_s=False: self_
        return self

    def __exit__(self, *a):
        self.MP.canonicalise, self.MP.compress = self.saved
        return False


def rk_reference(tab, H_of_t, y, tau, t0):
    a, b, c = tab
    ks = []
    for i in range(len(c)):
        yi = y
        for j in range(i):
            if a[i, j] != 0:
                yi = yi + ks[j] * (a[i, j] * tau)
        ks.append(H_of_t(c[i] * tau + t0).dot(yi) * (-1j))
    out = y
    for i in range(len(c)):
        if b[0, i] != 0:
            out = out + ks[i] * (b[0, i] * tau)
    return out


def _chain(ts):
    res = np.ones((1, 1), dtype=object if any(np.asarray(t).dtype == object for t in ts) else complex)
    for t in ts:
        t = np.asarray(t)
        res = np.tensordot(res, t, axes=([-1], [0]))
        res = res.reshape(-1, t.shape[-1])
    return res[:, 0]


def h_tdvp_sweep(ctx, P):
    """Mps.evolve with the one-/two-site projector-splitting scheme, local propagator = contract stub (arbitrary output, or the identity).
    Obligations: at EVERY local step the operator handed to the propagator is the projection of H onto that tangent direction of the state as
    it is at that moment (environment freshness, gauge and label bookkeeping); local time steps are -+ i dt/2 and sum to -i dt per site and
    +i dt per bond; with the identity as local propagator the sweep returns the state it started from."""
    from renormalizer.mps import mps as mpsmod
    from renormalizer.utils import EvolveConfig, EvolveMethod, CompressConfig, CompressCriteria
    from symnum import stubs
    from checks.c08 import sym_mpo
    model = lib.make_model(P["kinds"])
    n = model.nsite
    qn = [[[0]]] + [([[0], [1]] if P["bonds"][i_] == 2 else [[0]] * P["bonds"][i_]) for i_ in range(1, n)] + [[[0]]]
    qnidx = 0 if P["start"] == "left" else n - 1
    psi = lib.build_mps(ctx, "a", model, P["bonds"], [np.array(q) for q in qn], [1], qnidx, to_right=(qnidx == 0), kind="real", coeff="one")
    psi.evolve_config = EvolveConfig(getattr(EvolveMethod, P["method"]), **(dict(ivp_solver="RK45") if P.get("ivp") else {}))
    psi.compress_config = CompressConfig(CompressCriteria.fixed, max_bonddim=16)
    H = sym_mpo(ctx, "o", model, n, hop=P.get("hop", False))
    Hd = lib.dense_op(lib.tensors(H))
    v0 = lib.dense_of(psi)
    tau = ctx.real("tau", 0.2)
    ctx.assume(ctx.lt(0, tau), "tau > 0")
    dt = tau * (-1j) if P["imag"] else tau
    identity = P["local"] == "identity"
    cur = {}
    log = []
    conds = []
    cnt = [0]
    real_env, real_hop, real_expm = mpsmod.Environ, mpsmod.hop_expr, mpsmod.expm_krylov

    def env_wrapper(mps_, mpo_, *a, **k):
        cur["mps"] = mps_
        return real_env(mps_, mpo_, *a, **k)

    def same_array(x, y):
        x, y = np.asarray(getattr(x, "array", x)), np.asarray(getattr(y, "array", y))
        if x.shape != y.shape:
            return False
        if x.dtype == object and y.dtype == object:
            return all(p_ is q_ for p_, q_ in zip(x.ravel(), y.ravel()))
        return bool(np.shares_memory(x, y))

    def hop_wrapper(l_array, r_array, mo, shape, *a, **k):
        cur["kind"] = len(mo)
        cur["shape"] = tuple(shape)
        cur["first"] = None
        if len(mo):
            hits = [i for i in range(n) if same_array(H[i], mo[0])]
            cur["first"] = hits[0] if len(hits) == 1 else None
        return real_hop(l_array, r_array, mo, shape, *a, **k)

    def fake_expm(afunc, tstep, v, *a, **k):
        m = cur["mps"]
        kind, shape = cur["kind"], cur["shape"]
        ts = [np.asarray(t) for t in lib.tensors(m)]
        q = m.qnidx
        if kind in (1, 2) and cur["first"] is None:
            raise RuntimeError("harness: cannot identify the operator site of this local step")
        if kind == 1:
            q = cur["first"]
            left, right, site = ts[:q], ts[q + 1:], (q,)
        elif kind == 2:
            c0 = cur["first"]
            left, right, site = ts[:c0], ts[c0 + 2:], (c0, c0 + 1)
        else:
            # bond matrix between the site that was just made an isometry and the new centre
            b = q if m.to_right else q + 1          # the bond sits to the left of site b
            left, right, site = ts[:b], ts[b:], ("bond", b)
        log.append((kind, site, tstep))
        v = np.asarray(v)
        if identity:
            return v, 1
        cnt[0] += 1
        x = ctx.array("x%d_" % cnt[0], shape, "real")
        psi_x = _chain(left + [x] + right)
        Hpsi = Hd.dot(psi_x)
        ref = np.empty(shape, dtype=object if ctx.symbolic else complex)
        for idx in np.ndindex(*shape):
            u = np.zeros(shape, dtype=object if ctx.symbolic else float)
            u[idx] = 1
            e = _chain(left + [u] + right)
            ref[idx] = sum((p_ * q_ for p_, q_ in zip(e, Hpsi)), 0)
        y = np.asarray(afunc(x.ravel())).reshape(shape)
        conds.append(ctx.eq(y, ref))
        # an arbitrary output with the block structure of the input (the real propagator keeps it because the effective operator does)
        out = ctx.array("k%d_" % cnt[0], v.shape, "real")
        for idx in np.ndindex(*v.shape):
            e_ = v[idx]
            if (e_.const_value() == 0) if hasattr(e_, "const_value") else (e_ == 0):
                out[idx] = e_
        return out, 1

    def fake_ivp(fun, t_span, y0, **kw):
        """contract stub for scipy's solve_ivp (ivp_solver != "krylov"): arbitrary end point; what is checked is the RIGHT-HAND SIDE: fun(t, y) must be
        g * H_eff y with g = -i (forward, real time), -1 (forward, imaginary time) and the opposite sign for the backward steps, integrated over
        (0, |dt|/2); the equivalent exponent span * g enters the same time bookkeeping as the Krylov steps"""
        kind = cur["kind"]
        forward = (kind == 2) or (kind == 1 and P["method"] == "tdvp_ps")
        g = (-1 if forward else 1) * (1 if P["imag"] else 1j)
        ginv = 1 / g if not isinstance(g, complex) else g.conjugate()      # |g| = 1
        res, _ = fake_expm(lambda x: np.asarray(fun(0, x)) * ginv, t_span[1] * g, y0)
        conds.append(ctx.eq(t_span[0], 0))

        class Sol:
            y = res
            nfev = 1
        return Sol()
    real_ivp = mpsmod.solve_ivp
    mpsmod.Environ, mpsmod.hop_expr, mpsmod.expm_krylov, mpsmod.solve_ivp = env_wrapper, hop_wrapper, fake_expm, fake_ivp
    undo = None
    if ctx.symbolic:
        _, undo = stubs.lapack_contract(ctx, modules=("renormalizer.mps.svd_qn",))
    try:
        res = psi.evolve(H, dt, normalize=False)
    finally:
        mpsmod.Environ, mpsmod.hop_expr, mpsmod.expm_krylov, mpsmod.solve_ivp = real_env, real_hop, real_expm, real_ivp
        if undo:
            undo()
    name = P["method"]
    ctx.check("%s: the input state is left as it was" % name, ctx.eq(lib.dense_of(psi), v0))
    if identity:
        ctx.check("%s with the identity as local propagator returns the state it started from" % name, ctx.eq(lib.dense_of(res), v0))
        ctx.check("%s: labels of the result are valid" % name, lib.inv_relation(ctx, res))
        return
    ctx.check("%s: at every local step of the real sweep the effective operator = projection of H onto that tangent direction of the CURRENT state" % name, ctx.all(conds))
    # time bookkeeping
    fwd = dt * (-1j) / 2
    site_t = {}
    bond_t = {}
    tconds = []
    for kind, site, tstep in log:
        tconds.append(ctx.any([ctx.eq(tstep, fwd), ctx.eq(tstep, fwd * -1)]))
        if kind == 1:
            site_t[site[0]] = site_t.get(site[0], 0) + tstep
        elif kind == 2:
            for s_ in site:
                site_t[s_] = site_t.get(s_, 0) + tstep
            bond_t[site[1]] = bond_t.get(site[1], 0) - tstep
        else:
            bond_t[site[1]] = bond_t.get(site[1], 0) + tstep
    for i in range(n):
        tconds.append(ctx.eq(site_t.get(i, 0), dt * (-1j)))
    for b in range(1, n):
        tconds.append(ctx.eq(bond_t.get(b, 0), dt * 1j))
    ctx.check("%s: local time steps are -+ i dt/2; every site is propagated for -i dt in total and every bond for +i dt" % name, ctx.all(tconds))
    ctx.check("%s: labels of the result are valid" % name, lib.inv_relation(ctx, res))


def make_harness(P):
    op = P["op"]

    def h(ctx):
        from renormalizer.mps import Mps, Mpo
        from renormalizer.utils import EvolveConfig, EvolveMethod, CompressConfig, CompressCriteria
        if op == "adaptive":
            return h_adaptive(ctx, P)
        if op == "adaptive_taylor":
            return h_adaptive_taylor(ctx, P)
        if op == "vmf":
            return h_vmf(ctx, P)
        if op == "dispatch":
            return h_dispatch(ctx)
        if op == "tdvp_sweep":
            return h_tdvp_sweep(ctx, P)
        n = P["n"]
        model = lib.make_model(tuple(["s"] * n))
        psi = sym_state(ctx, model, n, P["sbond"])
        psi.compress_config = CompressConfig(CompressCriteria.fixed, max_bonddim=10 ** 6)
        H0 = sym_op(ctx, model, n, P["obond"], "o")
        dt = ctx.real("dt", 0.3)
        y0 = lib.dense_vec(lib.tensors(psi))
        D0 = lib.dense_op(lib.tensors(H0))
        if op == "taylor":
            psi.evolve_config = EvolveConfig(EvolveMethod.prop_and_compress, adaptive=False, taylor_order=P["order"])
            with IdentityCompression():
                res = psi.evolve(H0, dt, normalize=False)
            cs_ = psi.evolve_config.taylor_config.coeff
            ref = y0 * cs_[0]
            v = y0
            for k in range(1, P["order"] + 1):
                v = D0.dot(v) * (-1j) * dt
                ref = ref + v * cs_[k]
            ctx.check("Taylor P&C step = sum_k c_k (-i dt H)^k psi with the code's own coefficients", ctx.eq(lib.dense_of(res), ref))
            return
        td = P["td"]
        if td:
            H1 = sym_op(ctx, model, n, P["obond"], "p")
            D1 = lib.dense_op(lib.tensors(H1))

            def mpo_t(t, *a, **k):
                return H0.add(H1.scale(t))

            def H_of_t(t):
                return D0 + D1 * t
            mpo_arg = mpo_t
        else:
            def H_of_t(t):
                return D0
            mpo_arg = H0
        if op == "rk4":
            psi.evolve_config = EvolveConfig(EvolveMethod.prop_and_compress_tdrk4, adaptive=False)
            with IdentityCompression():
                res = psi.evolve(mpo_arg, dt, normalize=False)
            # classical RK4 with the code's own float weights 1/6, 2/6, 2/6, 1/6 and 0.5
            k1 = H_of_t(0).dot(y0) * (-1j)
            k2 = H_of_t(0.5 * dt).dot(y0 + k1 * (0.5 * dt)) * (-1j)
            k3 = H_of_t(0.5 * dt).dot(y0 + k2 * (0.5 * dt)) * (-1j)
            k4 = H_of_t(dt).dot(y0 + k3 * dt) * (-1j)
            ref = y0 + k1 * (1 / 6 * dt) + k2 * (2 / 6 * dt) + k3 * (2 / 6 * dt) + k4 * (1 / 6 * dt)
            ctx.check("RK4 P&C step = classical Runge-Kutta map (time-dependent H evaluated at 0, dt/2, dt/2, dt)", ctx.eq(lib.dense_of(res), ref))
        else:
            psi.evolve_config = EvolveConfig(EvolveMethod.prop_and_compress_tdrk, adaptive=False, rk_solver=P["method"])
            ctx.assume(ctx.lt(0, dt), "dt > 0 (same direction as guess_dt)")
            with IdentityCompression():
                res = psi.evolve(mpo_arg, dt, normalize=False)
            ref = rk_reference(psi.evolve_config.rk_config.tableau, H_of_t, y0, dt, 0)
            ctx.check("general RK P&C step = Runge-Kutta map of the tableau (stage times t0 + c_i dt)", ctx.eq(lib.dense_of(res), ref))
    return h


def h_adaptive(ctx, P):
    """two sites, product state and product operators; the controller's error estimate is an arbitrary positive number.
    Bookkeeping obligations are stated on object identity and on the (small) time expressions, so that the nested
    six-stage maps never have to be expanded; the map of the embedded pair's propagating row is checked on the
    single-trial path."""
    from renormalizer.mps import Mps, Mpo
    from renormalizer.mps import mps as mpsmod
    from renormalizer.utils import EvolveConfig, EvolveMethod, CompressConfig, CompressCriteria
    from symnum import engine, sym as S, expr as X, stubs
    model = lib.make_model(("s", "s"))
    psi = sym_state(ctx, model, 2, 1)
    psi.compress_config = CompressConfig(CompressCriteria.fixed, max_bonddim=10 ** 6)
    H0 = sym_op(ctx, model, 2, 1, "o")
    D0 = lib.dense_op(lib.tensors(H0))
    T = ctx.real("T", 1.0)
    g = ctx.real("guess", 0.6)
    ctx.assume(ctx.all([ctx.lt(0, T), ctx.lt(0, g)]), "T > 0, guess_dt > 0")
    psi.evolve_config = EvolveConfig(EvolveMethod.prop_and_compress_tdrk, adaptive=True, rk_solver=P["method"], guess_dt=g)
    if ctx.symbolic:
        ctx.explorer.any_mode = "opaque"
    tab = psi.evolve_config.rk_config.tableau
    nst = len(tab[2])
    c1 = float(tab[2][1])
    log = []          # per trial: dict(t0, start (object), tau, result (object))

    bound_info = {}

    def mpo_t(t, mps=None, **k):
        bound_info["t"], bound_info["mps"] = t, mps
        # stage 0 has c_0 = 0: t = t0 and mps is the trial's start state (compressed_sum([y]) returns y itself); stage 1: t = c_1 tau + t0
        if not log or log[-1]["stages"] >= nst:
            if len(log) >= P.get("max_trials", 2):
                raise _TrialBound()               # bound on the number of trials per call: stop here, judge what was seen
            log.append(dict(t0=t, start=mps, stages=0))
        if log[-1]["stages"] == 1:
            from fractions import Fraction
            log[-1]["tau"] = (t - log[-1]["t0"]) * (Fraction(1) / Fraction(c1)) if ctx.symbolic else (t - log[-1]["t0"]) / c1
        log[-1]["stages"] += 1
        log[-1].setdefault("times", []).append(t)
        return H0

    fresh = [0]

    def fake_norm(self_):
        fresh[0] += 1
        if fresh[0] % 2 == 0:
            log[-1]["result"] = self_         # `error.norm / new_mps.norm`: the second call is on the trial's result
        v = ctx.real("norm%d" % fresh[0], 1.0 + 0.1 * fresh[0])
        ctx.assume(ctx.lt(0, v), "norms are positive")
        return v
    saved_norm = mpsmod.Mps.norm
    mpsmod.Mps.norm = property(fake_norm)
    res = None
    try:
        with IdentityCompression():
            try:
                res = psi.evolve(mpo_t, T, normalize=False)
            except _TrialBound:
                # a further trial was about to start: record its start so that the hand-over from the last completed trial is judged too
                log.append(dict(t0=bound_info["t"], start=bound_info["mps"], stages=0, pending=True))
    finally:
        mpsmod.Mps.norm = saved_norm
    ok_rej, ok_acc, tcond = True, True, []
    for k in range(len(log) - 1):
        a_, b_ = log[k], log[k + 1]
        same_t = ctx.eq(b_["t0"], a_["t0"])
        decided = bool(S._mkbool(same_t)) if (ctx.symbolic and not isinstance(same_t, bool)) else bool(same_t)
        if decided:
            ok_rej = ok_rej and (b_["start"] is a_["start"])
        else:
            ok_acc = ok_acc and (b_["start"] is a_["result"])
            tcond.append(ctx.eq(b_["t0"], a_["t0"] + a_["tau"]))
    ctx.check("a rejected trial leaves the state untouched (the next trial starts from the same state at the same time)", ok_rej)
    ctx.check("an accepted trial hands its result to the next trial", ok_acc)
    ctx.check("an accepted trial advances the time by exactly its sub-step", ctx.all(tcond))
    ctx.check("the first trial starts from the input at time 0", ctx.all([ctx.eq(log[0]["t0"], 0), log[0]["start"] is psi]))
    # stage times: the Hamiltonian of stage i is requested at t0 + c_i * tau in EVERY trial (also in those that start at t0 != 0)
    stconds = []
    for tr in log:
        if "tau" not in tr:
            continue
        for i_, ti in enumerate(tr.get("times", [])):
            ci = tab[2][i_]
            from fractions import Fraction
            cf = Fraction(float(ci)) if ctx.symbolic else float(ci)
            stconds.append(ctx.eq(ti, tr["t0"] + tr["tau"] * cf))
    ctx.check("every stage asks for the Hamiltonian at t0 + c_i * tau (all trials, also those starting at t0 != 0)", ctx.all(stconds))
    if res is None:
        return
    last = log[-1]
    ctx.check("the last trial ends exactly at the requested time", ctx.eq(last["t0"] + last["tau"], T))
    ctx.check("the returned state is the last trial's result", res is last["result"])
    if len(log) == 1:
        y0 = lib.dense_vec(lib.tensors(psi))
        ctx.check("single accepted trial = RK map of the pair's propagating row", ctx.eq(lib.dense_of(res), rk_reference(tab, lambda t: D0, y0, last["tau"], 0)))


def h_adaptive_taylor(ctx, P):
    """the adaptive Taylor propagation-and-compression driver: error estimate (distance) and norm are arbitrary positive numbers, compression is the identity.
    Recorded per trial: the level's start state (dense, taken on entry), the trial step dt, the trial's result."""
    from renormalizer.mps import Mps
    from renormalizer.mps import mps as mpsmod
    from renormalizer.utils import EvolveConfig, EvolveMethod, CompressConfig, CompressCriteria
    model = lib.make_model(("s", "s"))
    psi = sym_state(ctx, model, 2, 1)
    psi.compress_config = CompressConfig(CompressCriteria.fixed, max_bonddim=10 ** 6)
    H0 = sym_op(ctx, model, 2, 1, "o")
    D0 = lib.dense_op(lib.tensors(H0))
    T = ctx.real("T", 1.0)
    g = ctx.real("guess", 0.6)
    ctx.assume(ctx.all([ctx.lt(0, T), ctx.lt(0, g)]), "T > 0, guess_dt > 0")
    order = P["order"]
    psi.evolve_config = EvolveConfig(EvolveMethod.prop_and_compress, adaptive=True, taylor_order=order, guess_dt=g)
    if ctx.symbolic:
        ctx.explorer.any_mode = "opaque"
    levels = []      # dict(start=dense on entry, state=object, T=evolve_dt, trials=[dict(dt, result)])
    real_level = mpsmod.Mps._evolve_prop_and_compress
    real_min_abs = mpsmod.min_abs
    real_distance = mpsmod.Mps.distance
    saved_norm = mpsmod.Mps.mp_norm
    last_dt = [None]
    ntr = [0]

    def level(self_, mpo, evolve_dt):
        levels.append(dict(start=lib.dense_of(self_), state=self_, T=evolve_dt, trials=[]))
        return real_level(self_, mpo, evolve_dt)

    def min_abs(a, b):
        r = real_min_abs(a, b)
        last_dt[0] = r
        return r

    def fake_distance(self_, other):
        # `new_mps1.distance(new_mps2)`: other is the trial's result; the step is the value min_abs produced at the top of this pass
        if ntr[0] >= P.get("max_trials", 3):
            raise _TrialBound()
        ntr[0] += 1
        levels[-1]["trials"].append(dict(dt=last_dt[0], result=other, dense=lib.dense_of(other)))
        v = ctx.real("dis%d" % ntr[0], [0.5, 1e-9, 1e-9][(ntr[0] - 1) % 3])
        ctx.assume(ctx.lt(0, v), "error estimates are positive")
        return v

    def fake_norm(self_):
        v = ctx.real("mpnorm%d" % ntr[0], 1.0)
        ctx.assume(ctx.lt(0, v), "norms are positive")
        return v
    mpsmod.Mps._evolve_prop_and_compress, mpsmod.min_abs, mpsmod.Mps.distance = level, min_abs, fake_distance
    mpsmod.Mps.mp_norm = property(fake_norm)
    res = None
    try:
        with IdentityCompression():
            try:
                res = psi.evolve(H0, T, normalize=False)
            except _TrialBound:
                pass
    finally:
        mpsmod.Mps._evolve_prop_and_compress, mpsmod.min_abs, mpsmod.Mps.distance = real_level, real_min_abs, real_distance
        mpsmod.Mps.mp_norm = saved_norm
    cs_ = psi.evolve_config.taylor_config.coeff
    conds, hand, tconds = [], True, []
    for li, lv in enumerate(levels):
        for tr in lv["trials"]:
            v = lv["start"]
            ref = v * cs_[0]
            for k in range(1, order + 1):
                v = D0.dot(v) * (-1j) * tr["dt"]
                ref = ref + v * cs_[k]
            conds.append(ctx.eq(tr["dense"], ref))
        if li + 1 < len(levels) and lv["trials"]:
            nxt = levels[li + 1]
            hand = hand and (nxt["state"] is lv["trials"][-1]["result"])
            tconds.append(ctx.eq(nxt["T"], lv["T"] - lv["trials"][-1]["dt"]))
    ctx.check("adaptive Taylor: every trial - also one that follows a rejected trial - equals sum_k c_k (-i dt H)^k applied to the state its level started from, with ITS OWN step dt",
              ctx.all(conds))
    ctx.check("adaptive Taylor: an accepted sub-step hands its result to the next level", hand)
    ctx.check("adaptive Taylor: an accepted sub-step reduces the remaining time by exactly its step", ctx.all(tconds))
    ctx.check("adaptive Taylor: the first level starts from the input with the requested time", levels[0]["state"] is psi and ctx.eq(levels[0]["T"], T))
    ctx.check("adaptive Taylor: the input state is left as it was", ctx.eq(lib.dense_of(psi), levels[0]["start"]))
    if res is None:
        return
    last = levels[-1]
    ctx.check("adaptive Taylor: the returned state is the last trial's result", res is last["trials"][-1]["result"])


def h_vmf(ctx, P):
    """(tdvp_mu_vmf: the right overlap is not inverted through eigh; the right block is brought to R = u s v^T by the code's own SVD and the derivative is
    (1/coef) (1 - P_i) [ (L_i x 1)^h (H psi) conj(v) ] diag(1/s') u^h with s' = s + sqrt(eps) exp(-s/sqrt(eps)); symbolically on two sites with the recorded (u, s, v),
    in the float-build twins through an independent eigen-decomposition of R R^h: weights 1/(s s'), s = sqrt(w).)
    EvolveMethod.tdvp_vmf: `solve_ivp` is replaced by a stub that evaluates the right-hand side once at the initial point; eigh by contract (w, u).
    Reference (derived independently in matrix form and validated numerically against the tangent-space projection of -i H psi): with L_i / R_i the dense
    left / right blocks of the state the derivative of site i is
        (1/coef) * S_L^-1 (1 - P_i) F_i (R_i R_i^h)^-1,   F_i = (L_i x 1)^h (H psi) R_i^h,   P_i = (S_L x 1) A_i S_L'^-1 A_i^h   (S_L = L_i^h L_i; = 1 in the left-canonical gauge)
    and (1/coef) S_L^-1 F_n for the last site; inverses = u diag(1/w') u^h from the decomposition the code itself requested (w' = clamp + regularisation)."""
    from renormalizer.mps import mps as mpsmod
    from renormalizer.utils import EvolveConfig, EvolveMethod, CompressConfig, CompressCriteria
    from symnum import stubs
    from checks import chainsteps as cs_
    n = P["n"]
    force = P["force"]
    cplx = P["kind"] == "cplx"
    model = lib.make_model(tuple(["s"] * n))
    psi = sym_state(ctx, model, n, 2, kind=P["kind"])
    psi.compress_config = CompressConfig(CompressCriteria.fixed, max_bonddim=16)
    # centre at the right end, sweeping left: the book-keeping of a left-canonical state (force_ovlp: the scheme then skips the canonicalisation)
    psi.to_right = False
    psi.qnidx = n - 1
    if P.get("concrete_h"):
        # a fixed non-symmetric operator with dyadic entries (bond 2): the equations are then polynomial identities in the STATE's entries only
        from renormalizer.mps import Mpo
        H = Mpo()
        H.model = model
        vals = [0.5, -1.25, 2.0, 0.75, -0.5, 1.5, -2.0, 0.25, 1.0, -0.75, 3.0, -1.5, 0.125, 2.5, -0.25, 1.75]
        ob = [1] + [2] * (n - 1) + [1]
        kk = 0
        for i in range(n):
            t = np.zeros((ob[i], 2, 2, ob[i + 1]))
            for ix in np.ndindex(*t.shape):
                t[ix] = vals[kk % len(vals)] * (1 + kk // len(vals))
                kk += 1
            H.append(t)
        H.build_empty_qn()
        H.offset = 0.0
    else:
        H = sym_op(ctx, model, n, P.get("obond", 1), "o")
    Hd = lib.dense_op(lib.tensors(H))
    mu = P.get("method") == "tdvp_mu_vmf"
    psi.evolve_config = EvolveConfig(EvolveMethod.tdvp_mu_vmf if mu else EvolveMethod.tdvp_vmf, force_ovlp=force)
    psi.evolve_config.vmf_auto_switch = False
    eps = psi.evolve_config.reg_epsilon
    rec = {}
    eigs = []

    class _Done(Exception):
        pass

    def fake_ivp(fun, t_span, y0, **kw):
        rec["y0"] = np.array(y0, dtype=object if ctx.symbolic else complex)
        rec["f"] = np.array(fun(0, y0), dtype=object if ctx.symbolic else complex)
        raise _Done()
    real_env = mpsmod.Environ

    def env_wrapper(mps_, mpo_, *a, **k):
        rec["ts"] = [np.array(np.asarray(x.array)) for x in mps_]
        return real_env(mps_, mpo_, *a, **k)
    real_ivp = mpsmod.solve_ivp
    mpsmod.solve_ivp, mpsmod.Environ = fake_ivp, env_wrapper
    undo = None
    saved_scipy = mpsmod.__dict__.get("scipy")
    if ctx.symbolic:
        contract, undo = stubs.lapack_contract(ctx, modules=("renormalizer.mps.svd_qn", "renormalizer.mps.mps"), cplx=cplx)
        inner_eigh = mpsmod.scipy.linalg.eigh
    else:
        import scipy.linalg as _sl
        inner_eigh = _sl.eigh

    class _LA:
        def __getattr__(self, item):
            return getattr(cur_scipy.linalg, item)

        @staticmethod
        def eigh(a, *aa, **k):
            arr = np.asarray(a)
            if arr.dtype == object and not any(hasattr(x, "re") for x in arr.flat):
                a = arr.astype(complex)          # an all-concrete object array (the trivial 1x1 overlap at the chain end)
                if not np.any(a.imag):
                    a = a.real
                import scipy.linalg as _sl2
                w, u = _sl2.eigh(a, *aa, **k)
            else:
                w, u = inner_eigh(a, *aa, **k)
            eigs.append((np.array(np.asarray(a)), w, u))
            return w, u

    class _SP:
        linalg = _LA()

        def __getattr__(self, item):
            return getattr(cur_scipy, item)
    cur_scipy = mpsmod.scipy
    mpsmod.scipy = _SP()
    try:
        try:
            # the left-canonical gauge the scheme establishes first is not re-derived here (C04): the gauge test answers "already canonical", so the equations are
            # compared as polynomial identities on an arbitrary state (the reference uses the same left-gauge form 1 - A A^h of the projector)
            from renormalizer.mps.mp import MatrixProduct as _MP
            saved_clc = _MP.check_left_canonical
            _MP.check_left_canonical = lambda self_, *a, **k: True
            try:
                with cs_.SvdSpy() as svdspy:
                    psi.evolve(H, 0.1, normalize=False)
            finally:
                _MP.check_left_canonical = saved_clc
                rec["svd"] = list(svdspy.records)
        except _Done:
            pass
    finally:
        mpsmod.solve_ivp, mpsmod.Environ = real_ivp, real_env
        mpsmod.scipy = cur_scipy
        if undo:
            undo()
        if saved_scipy is not None:
            mpsmod.scipy = saved_scipy
    if "f" not in rec:
        ctx.check("vmf: the ODE solver is called", False)
        return
    ts = rec["ts"]
    npx = mpsmod.np          # the module's own numpy name (proxy in symbolic mode): exp of a solver variable is the same uninterpreted atom on both sides
    odt = object if ctx.symbolic else complex

    def H_(m):
        return np.conj(np.asarray(m)).T

    def regularised(w):
        out = []
        from fractions import Fraction
        for x in np.asarray(w):
            pos = bool(x > 0)
            if pos:
                out.append(x + eps * npx.exp(-x / eps))
            else:
                # clamped to zero: 0 + eps * exp(0); exact arithmetic on the symbolic side (the double eps is an exact rational there)
                out.append(Fraction(eps) if ctx.symbolic else eps)
        return out

    def inv_from(M, reg, what):
        """inverse of the Hermitian matrix M through the decomposition the code requested for it (found by its argument, either index convention)"""
        M = np.asarray(M)
        for a, w, u in eigs:
            if a.shape != M.shape:
                continue
            same = ctx.eq(a, M)
            if (bool(same) if not ctx.symbolic else getattr(same, "op", "") == "true" or same is True):
                ww = regularised(w) if reg else list(np.asarray(w))
                return sum((np.outer(np.asarray(u)[:, k], np.conj(np.asarray(u)[:, k])) * (1 / ww[k]) for k in range(len(ww))), np.zeros(M.shape, dtype=odt))
            sameT = ctx.eq(a, M.T)
            if (bool(sameT) if not ctx.symbolic else getattr(sameT, "op", "") == "true" or sameT is True):
                ww = regularised(w) if reg else list(np.asarray(w))
                r = sum((np.outer(np.asarray(u)[:, k], np.conj(np.asarray(u)[:, k])) * (1 / ww[k]) for k in range(len(ww))), np.zeros(M.shape, dtype=odt))
                return r.T
        missing.append(what)
        return None
    missing = []
    mu_conds = []
    psi_d = lib.dense_vec(ts)
    Hpsi = Hd.dot(psi_d)
    coef = 1j
    refs = []
    for i in range(n):
        Lb = np.ones((1, 1), dtype=odt)
        for t in ts[:i]:
            Lb = np.tensordot(Lb, t, axes=([-1], [0])).reshape(-1, t.shape[-1])
        Rb = np.ones((1, 1), dtype=odt)
        for t in ts[:i:-1]:
            Rb = np.tensordot(t, Rb, axes=([-1], [0])).reshape(t.shape[0], -1)
        l, d, r = ts[i].shape
        A = ts[i].reshape(l * d, r)
        G = np.kron(Lb, np.eye(d, dtype=int))
        F = H_(G).dot(Hpsi.reshape(G.shape[0], -1)).dot(H_(Rb))
        SL = H_(Lb).dot(Lb)
        SLk = np.kron(SL, np.eye(d, dtype=int))
        SL1 = H_(A).dot(SLk).dot(A)
        SR = Rb.dot(H_(Rb))
        if i == n - 1:
            if force:
                iSL = inv_from(SL, False, "S_L[%d]" % i)
                if iSL is None:
                    continue
                f = np.kron(iSL, np.eye(d, dtype=int)).dot(F)
            else:
                f = F
        elif mu:
            Pm = A.dot(H_(A))
            if ctx.symbolic:
                # two sites: the recorded decomposition of the right block
                recs = [r_ for r_ in rec.get("svd", []) if len(r_[2]) == 6]
                if len(recs) != n - 1 or n != 2:
                    missing.append("svd of the right block (%d recorded)" % len(recs))
                    continue
                arg, u_, s_, v_ = np.asarray(recs[0][0][0]), np.asarray(recs[0][2][0]), np.asarray(recs[0][2][1]), np.asarray(recs[0][2][3])
                mu_conds.append(ctx.eq(arg.reshape(Rb.shape), Rb))
                se = np.sqrt(eps)
                sreg = [x + se * npx.exp(-x / se) for x in s_]
                X_ = H_(G).dot(Hpsi.reshape(G.shape[0], -1)).dot(np.conj(v_))
                f = (np.eye(l * d, dtype=int) - Pm).dot(X_).dot(np.diag([1 / x for x in sreg]).astype(object)).dot(H_(u_))
            else:
                w_, U_ = np.linalg.eigh(SR)
                sv = np.sqrt(np.where(w_ > 0, w_, 0))
                se = np.sqrt(eps)
                sreg = sv + se * np.exp(-sv / se)
                f = (np.eye(l * d) - Pm).dot(F).dot(U_.dot(np.diag(1 / (sv * sreg))).dot(U_.conj().T))
        else:
            iSR = inv_from(SR, True, "S_R[%d]" % (i + 1))
            if iSR is None:
                continue
            if force:
                iSL = inv_from(SL, False, "S_L[%d]" % i)
                iSL1 = inv_from(SL1, False, "S_L[%d]" % (i + 1))
                if iSL is None or iSL1 is None:
                    continue
                Pm = SLk.dot(A).dot(iSL1).dot(H_(A))
                f = np.kron(iSL, np.eye(d, dtype=int)).dot((np.eye(l * d, dtype=int) - Pm).dot(F)).dot(iSR)
            else:
                Pm = A.dot(H_(A))
                f = (np.eye(l * d, dtype=int) - Pm).dot(F).dot(iSR)
        refs.append((i, (f * (1 / coef)).ravel()))
    ctx.check("vmf: every overlap matrix the equations need was decomposed by the code (argument = overlap of the dense left / right block, either index convention)", not missing, info=str(missing))
    pos = 0
    conds = []
    sizes = [int(np.prod(t.shape)) for t in ts]
    offs = [sum(sizes[:i]) for i in range(n)]
    for i, f in refs:
        conds.append(ctx.eq(rec["f"][offs[i]:offs[i] + sizes[i]], f))
    if mu and ctx.symbolic:
        ctx.check("mu_vmf: the tensor handed to the SVD is the dense right block", ctx.all(mu_conds))
    ctx.check("vmf: the initial vector handed to the ODE solver is the state's tensors", ctx.eq(rec["y0"], np.concatenate([t.ravel() for t in ts])))
    ctx.check("vmf: right-hand side = (1/i) S_L^-1 (1 - P_i) F_i S_R^-1 for every site (gauge-fixed TDVP equations; regularised right overlap)", ctx.all(conds))


class _TrialBound(Exception):
    pass


def h_dispatch(ctx):
    from renormalizer.mps import Mps
    from renormalizer.utils import EvolveConfig, EvolveMethod
    model = lib.make_model(("s", "s"))
    psi = sym_state(ctx, model, 2, 1)
    called = []
    names = {EvolveMethod.prop_and_compress: "_evolve_prop_and_compress", EvolveMethod.prop_and_compress_tdrk4: "_evolve_prop_and_compress_tdrk4",
             EvolveMethod.prop_and_compress_tdrk: "_evolve_prop_and_compress_tdrk", EvolveMethod.tdvp_mu_vmf: "_evolve_tdvp_mu_vmf", EvolveMethod.tdvp_vmf: "_evolve_tdvp_mu_vmf",
             EvolveMethod.tdvp_mu_cmf: "_evolve_tdvp_mu_cmf", EvolveMethod.tdvp_ps: "_evolve_tdvp_ps", EvolveMethod.tdvp_ps2: "_evolve_tdvp_ps2"}
    ok = True
    for meth, fname in names.items():
        p = psi.copy()
        p.evolve_config = EvolveConfig(meth)
        hit = []
        setattr(p, fname, lambda mpo, dt, _f=fname: hit.append(_f) or p)
        p.evolve(None, 0.1, normalize=False)
        ok = ok and hit == [fname]
    ctx.check("every EvolveMethod dispatches to its own scheme", ok)


def main(tier, seed):
    from renormalizer.mps import mps as mpsmod, mpo as mpomod, lib as mlib
    M = mpsmod.Mps
    return common.run_check(
        PROP, "checks.c09", tier, seed,
        explanation="Mps.evolve with the three propagation-and-compression schemes on symbolic states (2 sites, thorough 3), symbolic operators and symbolic dt, canonicalise/compress as "
                    "identity: Taylor orders 1,2,4 (1-5) against sum_k c_k(-i dt H)^k; RK4 and the general RK driver for all eight non-embedded tableaux with constant and "
                    "time-dependent H(t) = H0 + t H1 against the Runge-Kutta map; the adaptive driver for RKF45 and Cash-Karp on a one-site system with an arbitrary (solver-chosen) "
                    "error estimate, up to two trials per call: rejected trials leave the state untouched, accepted trials advance state and time together, sub-steps add up. "
                    "The adaptive Taylor driver (distance / norm arbitrary positive, <= 3 trials per call): every trial = the polynomial of its own step on the level's start state. "
                    "The real chain projector-splitting sweeps (tdvp_ps / tdvp_ps2, Krylov or solve_ivp local solver by contract stub, also with hopping operators): effective operator "
                    "at every local step = projection of H on the current state, time book-keeping, identity run. The variable-mean-field scheme tdvp_vmf: solve_ivp replaced by a "
                    "stub that evaluates the right-hand side once, eigh by contract: right-hand side of every site = (1/i) S_L^-1 (1 - P_i) F_i S_R^-1 with dense-block references "
                    "(2 sites bond 2, thorough 3 sites / complex states; canonical gauge and force_ovlp), the matrices handed to eigh = overlaps of the dense blocks, "
                    "clamp + regularisation of the eigenvalues as documented; float-build twins (3 sites, real LAPACK) as reachability witnesses.",
        assumptions=["tdvp_vmf: one evaluation of the right-hand side (the ODE integration itself is scipy's); the left-canonical gauge is not re-derived (the gauge test is answered 'canonical', the "
                     "equations are compared as polynomial identities on an arbitrary state); exp() is uninterpreted; tdvp_mu_vmf and tdvp_mu_cmf are not covered; a violated "
                     "equation is reported through the float-build twins (the solver cannot satisfy the eigen-decomposition contracts to produce a model)",
                     "NOT covered (DESIGN.md section 2): accuracy/convergence of TDVP-PS/PS2/VMF/CMF, norm and energy conservation, local-solver independence, the numerical quality of the "
                     "adaptive step-size heuristics - statements about Krylov/ODE float iterations. Their effective operators are covered by C08",
                     "canonicalise/compress are identity stubs here (assume-guarantee with C04/C05: they preserve the object when the bond limit suffices; bond limits are enforced in C05)",
                     "six-stage tableaux use product operators of bond dimension 1 and a product state to keep intermediate bond dimensions small",
                     "Mps.norm is an arbitrary positive number inside the adaptive harness (the controller's arithmetic is outside the claim)",
                     "the order of accuracy follows from C19 (tableaux satisfy the order conditions)"],
        trusted_base=["z3 5.1", "NumPy object loops"],
        functions=[M.evolve, M._evolve_tdvp_mu_vmf, mpsmod.integrand_func_factory, mpsmod.projector, mpsmod.transferMat, M._evolve_tdvp_ps, M._evolve_tdvp_ps2, M._evolve_prop_and_compress, M._evolve_prop_and_compress_tdrk4, M._evolve_prop_and_compress_tdrk, mpomod.Mpo.contract, mlib.compressed_sum, mlib._sum])


if __name__ == "__main__":
    import argparse
    ap = argparse.ArgumentParser()
    ap.add_argument("--tier", default=os.environ.get("VERIF_TIER", "quick"))
    a = ap.parse_args()
    sys.exit(main(a.tier, int(os.environ.get("VERIF_SEED", "0"))))
