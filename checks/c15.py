"""C15 - the symbolic operator algebra (Op / OpSum) is a faithful homomorphism.

Denotation [[.]]: the dense matrix over a fixed three-DoF spin model, built by the harness from its own
Pauli matrices (symbols on the same DoF multiply in the written order, different DoFs by Kronecker
product).  Every leaf factor and every scalar operand is a solver variable; expression shapes are
enumerated.  Obligations: [[a o b]] = [[a]] o [[b]] for + - * / (scalar left/right), in-place +=,
sum() via __radd__, negation; simplify(atol) changes the denotation by at most atol per dropped term and
merges equal terms exactly; squeeze_identity keeps the denotation; Op.__eq__/__hash__ consistent.
"""
import itertools
import os
import sys

VERIF = os.path.dirname(os.path.dirname(os.path.abspath(__file__)))
sys.path.insert(0, VERIF)
REPO = os.environ.get("VERIF_REPO", "/repo")
sys.path.insert(0, REPO)

import numpy as np  # noqa: E402
from checks import common  # noqa: E402

PROP = "C15"
RUN_OPTS = dict(max_paths=800, budget_s=40.0)

PAULI = {
    "I": np.eye(2), "X": np.array([[0, 1], [1, 0]], dtype=complex), "Y": np.array([[0, -1j], [1j, 0]]), "Z": np.diag([1.0, -1.0]).astype(complex),
    "sigma_+": np.array([[0, 1], [0, 0]], dtype=complex), "sigma_-": np.array([[0, 0], [1, 0]], dtype=complex),
}
NDOF = 3

# leaf pool: (symbol, dofs, qn or None)
LEAVES = [
    ("X", [0], None),
    ("Y Z", [1, 2], None),
    ("Z X", [0, 0], None),                    # repeated DoF: product in written order on one site
    ("I", [1], None),
    ("X I Y", [0, 1, 2], None),               # identity inside
    ("sigma_+ sigma_-", [0, 2], [1, -1]),     # one-component charges
    ("sigma_+ I", [0, 1], [[1, 0], [0, 0]]),  # two-component quantum numbers with an identity factor
    ("sigma_-", [2], [[0, -1]]),
]

SHAPES = ["add", "sub", "mul", "smul_l", "smul_r", "div", "neg", "dist_l", "dist_r", "sum_sum", "sub_sum", "iadd", "pysum", "npscalar", "intscalar",
          "plain_list", "product", "squeeze", "simplify", "simplify_merge", "eqhash"]


def instances(tier, seed):
    out = []
    one_comp = [0, 1, 2, 3, 4, 5]
    two_comp = [6, 7]
    pairs = [(0, 1), (2, 4), (1, 3), (5, 0), (3, 3), (2, 2)] if tier == "quick" else list(itertools.product(one_comp, repeat=2))
    for shape in SHAPES:
        if shape in ("neg", "squeeze", "npscalar", "intscalar", "smul_l", "smul_r", "div"):
            for a in (one_comp + two_comp):
                out.append(dict(shape=shape, leaves=[a], label="%s leaf=%d" % (shape, a), key=shape + ("/2qn" if a in two_comp else "")))
        elif shape in ("add", "sub", "mul", "iadd", "eqhash"):
            for a, b in pairs + [(6, 7), (7, 6)]:
                out.append(dict(shape=shape, leaves=[a, b], label="%s leaves=%d,%d" % (shape, a, b), key=shape + ("/2qn" if a in two_comp else "")))
        elif shape in ("dist_l", "dist_r", "sub_sum", "pysum", "product", "plain_list"):
            for a, b, c in ([(0, 1, 2), (4, 3, 5), (2, 2, 0)] if tier == "quick" else list(itertools.product(one_comp, repeat=3))) + [(6, 6, 7), (7, 6, 6), (6, 7, 6)]:
                out.append(dict(shape=shape, leaves=[a, b, c], label="%s leaves=%d,%d,%d" % (shape, a, b, c), key=shape + ("/2qn" if a in two_comp else "")))
        elif shape == "sum_sum":
            for q in ([(0, 1, 2, 4), (3, 5, 0, 2)] if tier == "quick" else list(itertools.product(one_comp[:5], repeat=4))[::2]):
                out.append(dict(shape=shape, leaves=list(q), label="%s leaves=%s" % (shape, q), key=shape))
        elif shape in ("simplify", "simplify_merge"):
            for q in [(0, 0, 1, 4), (4, 4, 3, 0), (2, 1, 2, 1), (5, 5, 0, 3), (3, 3, 3, 1), (0, 1, 0, 4, 0), (2, 0, 2, 2, 1), (1, 0, 1, 2, 1, 0, 1)]:
                out.append(dict(shape=shape, leaves=list(q), label="%s leaves=%s" % (shape, q), key=shape))
            out.append(dict(shape=shape, leaves=[6, 6, 7, 7], label="%s two-component qn leaves=(6,6,7,7)" % shape, key=shape + "/2qn"))
            if tier == "thorough":
                # every multiset pattern of 4-5 terms over the one-component pool that contains at least one repetition (equal terms in every position pattern)
                for q in [t for t in itertools.product(one_comp[:5], repeat=4) if len(set(t)) < 4][::2] + [t for t in itertools.product((0, 1, 4), repeat=5) if len(set(t)) < 3][::3]:
                    out.append(dict(shape=shape, leaves=list(q), label="%s leaves=%s" % (shape, q), key=shape))
                for q in [(6, 7, 6, 7), (7, 7, 6), (6, 6, 6)]:
                    out.append(dict(shape=shape, leaves=list(q), label="%s two-component qn leaves=%s" % (shape, q), key=shape + "/2qn"))
    return out


def denote(op):
    """dense matrix of an Op (harness-side, independent of basis.op_mat and of Op.split_elementary)"""
    per = {d: np.eye(2, dtype=complex) for d in range(NDOF)}
    for s, d in zip(op.split_symbol, op.dofs):
        per[d] = per[d].dot(PAULI[s])
    k = np.ones((1, 1), dtype=complex)
    for d in range(NDOF):
        k = np.kron(k, per[d])
    return k * op.factor


def denote_sum(ops):
    from renormalizer.model import Op
    if isinstance(ops, Op):
        return denote(ops)
    tot = np.zeros((2 ** NDOF, 2 ** NDOF), dtype=object)
    tot[...] = 0
    for o in ops:
        tot = tot + denote(o)
    return tot


def make_harness(P):
    shape = P["shape"]

    def h(ctx):
        from renormalizer.model import Op, OpSum
        cplx = shape in ("add", "mul", "smul_l", "neg", "dist_l")

        def leaf(i, name):
            sym, dofs, qn = LEAVES[i]
            f = ctx.cplx(name, 0.7 - 0.4j) if cplx else ctx.real(name, 0.7 + 0.1 * i)
            return Op(sym, list(dofs), f, qn=qn)
        L = [leaf(i, "f%d" % k) for k, i in enumerate(P["leaves"])]
        D = [denote(o) for o in L]
        s = ctx.cplx("s", 1.5 + 0.5j) if cplx else ctx.real("s", -1.5)
        if shape == "add":
            ctx.check("[[a + b]] = [[a]] + [[b]]", ctx.eq(denote_sum(L[0] + L[1]), D[0] + D[1]))
        elif shape == "sub":
            ctx.check("[[a - b]] = [[a]] - [[b]]", ctx.eq(denote_sum(L[0] - L[1]), D[0] - D[1]))
        elif shape == "mul":
            ctx.check("[[a * b]] = [[a]] [[b]]", ctx.eq(denote_sum(L[0] * L[1]), D[0].dot(D[1])))
        elif shape == "smul_l":
            ctx.check("[[s * a]] = s [[a]]", ctx.eq(denote_sum(s * L[0]), D[0] * s))
        elif shape == "smul_r":
            ctx.check("[[a * s]] = s [[a]]", ctx.eq(denote_sum(L[0] * s), D[0] * s))
        elif shape == "div":
            ctx.assume(ctx.nonzero(s), "divisor != 0")
            r = OpSum([L[0]]) / s
            ctx.check("[[(a) / s]] * s = [[a]]", ctx.eq(denote_sum(r) * s, D[0]))
        elif shape == "neg":
            ctx.check("[[-a]] = -[[a]]", ctx.eq(denote_sum(-L[0]), D[0] * -1))
            ctx.check("[[-(a + a)]] = -2[[a]]", ctx.eq(denote_sum(-(L[0] + L[0])), D[0] * -2))
        elif shape == "dist_l":
            ctx.check("[[a * (b + c)]] = [[a]]([[b]] + [[c]])", ctx.eq(denote_sum(L[0] * (L[1] + L[2])), D[0].dot(D[1] + D[2])))
        elif shape == "dist_r":
            ctx.check("[[(a + b) * c]] = ([[a]] + [[b]])[[c]]", ctx.eq(denote_sum((L[0] + L[1]) * L[2]), (D[0] + D[1]).dot(D[2])))
            ctx.check("[[s * (a + b)]] and [[(a + b) * s]]", ctx.all([ctx.eq(denote_sum(s * (L[0] + L[1])), (D[0] + D[1]) * s), ctx.eq(denote_sum((L[0] + L[1]) * s), (D[0] + D[1]) * s)]))
        elif shape == "plain_list":
            # plain Python lists of Op as operands (added after a seeded defect that routed `list * Op` through `Op * list`)
            r = [L[0], L[1]] * L[2]
            ctx.check("[[ [a, b] * c ]] = ([[a]] + [[b]])[[c]] and is an OpSum", ctx.all([isinstance(r, OpSum), ctx.eq(denote_sum(r), (D[0] + D[1]).dot(D[2]))]))
            ctx.check("[[ c * [a, b] ]] = [[c]]([[a]] + [[b]])", ctx.eq(denote_sum(L[2] * [L[0], L[1]]), D[2].dot(D[0] + D[1])))
            ctx.check("[[ (a + b) * [c, a] ]] = ([[a]] + [[b]])([[c]] + [[a]])", ctx.eq(denote_sum((L[0] + L[1]) * [L[2], L[0]]), (D[0] + D[1]).dot(D[2] + D[0])))
            ctx.check("[[ c + [a, b] ]] and [[ (a + b) + [c] ]]", ctx.all([ctx.eq(denote_sum(L[2] + [L[0], L[1]]), D[0] + D[1] + D[2]), ctx.eq(denote_sum((L[0] + L[1]) + [L[2]]), D[0] + D[1] + D[2])]))
            ctx.check("[[ c - (a + b) ]]", ctx.eq(denote_sum(L[2] - (L[0] + L[1])), D[2] - D[0] - D[1]))
            acc = OpSum([L[0]])
            acc += [L[1], L[2]]
            ctx.check("OpSum += list", ctx.eq(denote_sum(acc), D[0] + D[1] + D[2]))
        elif shape == "sum_sum":
            ctx.check("[[(a + b) * (c + d)]] = ([[a]]+[[b]])([[c]]+[[d]])", ctx.eq(denote_sum((L[0] + L[1]) * (L[2] + L[3])), (D[0] + D[1]).dot(D[2] + D[3])))
            ctx.check("[[(a + b) + (c + d)]]", ctx.eq(denote_sum((L[0] + L[1]) + (L[2] + L[3])), D[0] + D[1] + D[2] + D[3]))
            ctx.check("[[(a + b) - (c + d)]]", ctx.eq(denote_sum((L[0] + L[1]) - (L[2] + L[3])), D[0] + D[1] - D[2] - D[3]))
        elif shape == "sub_sum":
            ctx.check("[[a - (b + c)]] = [[a]] - [[b]] - [[c]]", ctx.eq(denote_sum(L[0] - (L[1] + L[2])), D[0] - D[1] - D[2]))
            ctx.check("[[(a + b) - c]]", ctx.eq(denote_sum((L[0] + L[1]) - L[2]), D[0] + D[1] - D[2]))
        elif shape == "iadd":
            acc = OpSum([L[0]])
            acc += L[1]
            acc += OpSum([L[0]])
            ctx.check("in-place += accumulates", ctx.eq(denote_sum(acc), D[0] * 2 + D[1]))
            ctx.check("+= does not alias the operand", len(OpSum([L[0]])) == 1)
        elif shape == "pysum":
            ctx.check("sum([...]) through 0 + Op", ctx.eq(denote_sum(sum(L)), D[0] + D[1] + D[2]))
            ctx.check("Op + 0 and Op + np.array(0)", ctx.all([ctx.eq(denote_sum(L[0] + 0), D[0]), ctx.eq(denote_sum(L[0] + np.array(0)), D[0])]))
        elif shape == "npscalar":
            ctx.check("NumPy scalars on either side", ctx.all([ctx.eq(denote_sum(np.float64(2.5) * L[0]), D[0] * 2.5), ctx.eq(denote_sum(L[0] * np.float64(2.5)), D[0] * 2.5),
                                                               ctx.eq(denote_sum(np.complex128(1j) * L[0]), D[0] * 1j), ctx.eq(denote_sum((L[0] + L[0]) * np.float64(0.5)), D[0])]))
        elif shape == "intscalar":
            ctx.check("Python ints on either side", ctx.all([ctx.eq(denote_sum(3 * L[0]), D[0] * 3), ctx.eq(denote_sum(L[0] * 3), D[0] * 3), ctx.eq(denote_sum(2 * (L[0] + L[0])), D[0] * 4),
                                                             ctx.eq(denote_sum((L[0] + L[0]) / 2), D[0])]))
        elif shape == "product":
            ctx.check("Op.product = ordered product", ctx.eq(denote_sum(Op.product(L)), D[0].dot(D[1]).dot(D[2])))
            ctx.check("OpSum.product = ordered product of sums", ctx.eq(denote_sum(OpSum.product([L[0] + L[1], L[2] + L[0]])), (D[0] + D[1]).dot(D[2] + D[0])))
        elif shape == "squeeze":
            q = L[0].squeeze_identity()
            ctx.check("squeeze_identity keeps the denotation", ctx.eq(denote(q), D[0]))
            ctx.check("squeeze_identity removes every I unless the operator is the identity", all(sy != "I" for sy in q.split_symbol) or q.is_identity)
        elif shape in ("simplify", "simplify_merge"):
            atol = ctx.real("atol", 0.05) if shape == "simplify" else 0
            if shape == "simplify":
                ctx.assume(ctx.le(0, atol), "atol >= 0")
            osum = OpSum(L)
            before = denote_sum(osum)
            res = osum.simplify(atol) if shape == "simplify" else osum.simplify()
            after = denote_sum(res)
            nterm = len(L)
            if shape == "simplify_merge":
                ctx.check("simplify() with atol = 0 keeps the denotation exactly", ctx.eq(after, before))
                ctx.check("simplify() leaves no two terms that are the same term", all(not a.same_term(b) for i, a in enumerate(res) for b in res[i + 1:]))
            else:
                diff = after - before
                # every entry of a Pauli-string matrix has modulus <= 1, so dropping terms with |factor| <= atol moves each entry by at most atol per dropped term
                conds = []
                for x in diff.flat:
                    from symnum import sym as S
                    xr, xi = (S._lift(x).real, S._lift(x).imag) if ctx.symbolic else (complex(x).real, complex(x).imag)
                    conds.append(ctx.le(abs(xr), atol * nterm))
                    conds.append(ctx.le(abs(xi), atol * nterm))
                ctx.check("simplify(atol) changes no matrix entry by more than atol per term", ctx.all(conds))
                ctx.check("simplify(atol) keeps only terms above atol", ctx.all([ctx.lt(atol, abs(o.factor)) for o in res]))
                # exact documented semantics: equal terms are merged FIRST, then a merged term is dropped iff |merged factor| <= atol
                def unit(o):
                    per = {d: np.eye(2, dtype=complex) for d in range(NDOF)}
                    for sy, d in zip(o.split_symbol, o.dofs):
                        per[d] = per[d].dot(PAULI[sy])
                    k = np.ones((1, 1), dtype=complex)
                    for d in range(NDOF):
                        k = np.kron(k, per[d])
                    return k
                groups = []          # (unit matrix, merged factor of the input, summed factor in the result)
                for o in L:
                    u = unit(o)
                    for g in groups:
                        if np.array_equal(g[0], u):
                            g[1] = g[1] + o.factor
                            break
                    else:
                        groups.append([u, o.factor, 0])
                ok_struct = True
                for o in res:
                    u = unit(o)
                    for g in groups:
                        if np.array_equal(g[0], u):
                            g[2] = g[2] + o.factor
                            break
                    else:
                        ok_struct = False
                sem = [ok_struct]
                for u, cin, cout in groups:
                    big = ctx.lt(atol, abs(cin))
                    sem.append(ctx.implies(big, ctx.eq(cout, cin)))
                    sem.append(ctx.implies(ctx.neg(big), ctx.eq(cout, 0)))
                ctx.check("simplify(atol): every group of equal terms is kept with its MERGED factor iff that merged factor exceeds atol (merge first, drop afterwards)", ctx.all(sem))
        elif shape == "eqhash":
            a, b = L[0], L[1]
            same = (a == b)
            if bool(same):
                ctx.check("a == b implies hash(a) == hash(b)", hash(a) == hash(b))
                ctx.check("equal operators denote the same matrix", ctx.eq(D[0], D[1]))
            ctx.check("== is reflexive and symmetric", bool(a == a) and bool(same) == bool(b == a))
            ctx.check("same_term is symmetric", a.same_term(b) == b.same_term(a))
    return h


def main(tier, seed):
    from renormalizer.model import op as opmod
    O, S_ = opmod.Op, opmod.OpSum
    return common.run_check(
        PROP, "checks.c15", tier, seed,
        explanation="Every public arithmetic operator of Op / OpSum (+, -, *, /, unary -, scalar left/right with Python int, float, complex and NumPy scalars, in-place +=, sum(), "
                    "Op.product, OpSum.product, squeeze_identity, simplify with symbolic atol >= 0, __eq__/__hash__/same_term) on leaves with symbolic (real or complex) factors "
                    "from a pool of 8 operators (single- and multi-site, repeated DoF, identity factors inside, one- and two-component quantum numbers), against the harness' own "
                    "dense denotation over three spin DoFs.",
        assumptions=["real arithmetic for the scalars: a / s is s^-1 exactly (float 1/s rounding is outside the claim)",
                     "expression shapes are enumerated up to depth 2; the leaf pool is fixed", "Model.check_operator_terms is exercised in C01"],
        trusted_base=["z3 5.1", "NumPy object loops"],
        functions=[O.__init__, O.product, O.identity, O.__mul__, O.__rmul__, O.__add__, O.__radd__, O.__neg__, O.__sub__, O.squeeze_identity, O.same_term, O.to_tuple,
                   O.__hash__, O.__eq__, S_.__add__, S_.__iadd__, S_.__mul__, S_.__rmul__, S_.__neg__, S_.__sub__, S_.__truediv__, S_.simplify, S_.product])


if __name__ == "__main__":
    import argparse
    ap = argparse.ArgumentParser()
    ap.add_argument("--tier", default=os.environ.get("VERIF_TIER", "quick"))
    a = ap.parse_args()
    sys.exit(main(a.tier, int(os.environ.get("VERIF_SEED", "0"))))
