"""C16 - built-in basis sets (and model builders) realise their documented physics.

BasisSHO.op_mat runs with symbolic frequency omega > 0 and origin x0; the square roots of integers that
the code takes are exact algebraic numbers (module-local `np.sqrt` in basis.py returns s with s >= 0,
s^2 = n), so the defining relations are decided in exact arithmetic: canonical commutator, powers,
product symbols in the written order, shifted origin, second-quantised symbols.  Spin, electron,
multi-electron and HOPS-boson matrices are checked with a symbolic operator factor.  Model builders:
the term lists of HolsteinModel (schemes 1-4, open/periodic), SpinBosonModel and TI1DModel are
evaluated densely with symbolic parameters and compared with the documentation formula.
"""
import itertools
import os
import sys

VERIF = os.path.dirname(os.path.dirname(os.path.abspath(__file__)))
sys.path.insert(0, VERIF)
REPO = os.environ.get("VERIF_REPO", "/repo")
sys.path.insert(0, REPO)

import numpy as np  # noqa: E402
from checks import common, lib  # noqa: E402

PROP = "C16"
RUN_OPTS = dict(max_paths=600, budget_s=60.0)


def instances(tier, seed):
    out = []
    for nbas in ((2, 3, 4) if tier == "quick" else (1, 2, 3, 4, 5, 6)):
        for shifted in (False, True):
            for gen in (False, True):
                out.append(dict(op="sho", nbas=nbas, shifted=shifted, general=gen, label="sho nbas=%d shifted=%s general_xp_power=%s" % (nbas, shifted, gen),
                                key="sho" + ("/shifted" if shifted else "")))
    out.append(dict(op="spin", label="half spin Pauli algebra", key="spin"))
    out.append(dict(op="electron", label="simple / multi electron matrices", key="electron"))
    for nbas in (2, 3, 4):
        out.append(dict(op="hops", nbas=nbas, label="hops boson nbas=%d" % nbas, key="hops"))
    for nmol, nph, scheme, periodic in itertools.product((2, 3), (1, 2) if tier == "thorough" else (1,), (1, 2, 3, 4), (False, True)):
        if periodic and nmol < 3:
            continue
        if nmol == 3 and nph == 2:
            continue      # 3 electronic + 6 vibrational sites: a 512-dimensional dense space with symbolic entries is beyond the time budget (outside the bound)
        out.append(dict(op="holstein", nmol=nmol, nph=nph, scheme=scheme, periodic=periodic,
                        label="holstein nmol=%d nph=%d scheme=%d periodic=%s" % (nmol, nph, scheme, periodic), key="holstein"))
    # an explicit, NON-symmetric coupling matrix (every pair coupled): J_ij a+_i a_j, not J_ji
    for nmol, scheme in itertools.product((2, 3), (1, 2, 3, 4)):
        if nmol == 2 and scheme in (2, 3) and tier == "quick":
            continue
        out.append(dict(op="holstein", nmol=nmol, nph=1, scheme=scheme, periodic=False, jmat=True,
                        label="holstein nmol=%d scheme=%d explicit non-symmetric coupling matrix" % (nmol, scheme), key="holstein/jmatrix"))
    for nph in (1, 2):
        out.append(dict(op="sbm", nph=nph, label="spin-boson nph=%d" % nph, key="sbm"))
    out.append(dict(op="copy", label="BasisSet.copy keeps every local matrix (all basis classes, non-default parameters)", key="copy"))
    for ncell in ((2, 3) if tier == "quick" else (2, 3, 4)):
        out.append(dict(op="ti1d_mixed", ncell=ncell, label="TI1D with an electron + shifted-oscillator unit cell ncell=%d" % ncell, key="ti1d/mixed"))
    for ncell, rng in itertools.product((2, 3, 4), (1, 2, 3)):
        out.append(dict(op="ti1d", ncell=ncell, rng=rng, label="TI1D ncell=%d range=%d" % (ncell, rng), key="ti1d"))
    return out


class BasisNp:
    """module-local `np` for model/basis.py in symbolic runs: sqrt of numbers is exact"""

    def __getattr__(self, item):
        return getattr(np, item)

    @staticmethod
    def _exact_sqrt(v):
        from fractions import Fraction
        from symnum import sym as S, expr as X
        if isinstance(v, S.Sym):
            return v.sqrt()
        fr = Fraction(v)
        return S.Sym(X.sqrt(X.const(fr)))

    def sqrt(self, x, *a, **k):
        from symnum import sym as S
        if isinstance(x, S.Sym):
            return x.sqrt()
        arr = np.asarray(x)
        if arr.ndim == 0:
            return self._exact_sqrt(arr.item())
        out = np.empty(arr.shape, dtype=object)
        for idx in np.ndindex(*arr.shape):
            out[idx] = self._exact_sqrt(arr[idx])
        return out

    @staticmethod
    def zeros(shape, dtype=None, *a, **k):
        z = np.empty(shape, dtype=object)
        z[...] = 0
        return z

    @staticmethod
    def eye(n, *a, **k):
        z = np.empty((n, n), dtype=object)
        z[...] = 0
        for i in range(n):
            z[i, i] = 1
        return z

    @staticmethod
    def diag(v, k=0):
        v = np.asarray(v)
        if v.ndim == 1:
            n = len(v) + abs(k)
            z = np.empty((n, n), dtype=object)
            z[...] = 0
            for i in range(len(v)):
                if k >= 0:
                    z[i, i + k] = v[i]
                else:
                    z[i - k, i] = v[i]
            return z
        return np.diag(v, k)

    @staticmethod
    def allclose(a, b, *args, **kw):
        return np.allclose(a, b, *args, **kw)


def _mat(a):
    return np.asarray(a, dtype=object) if np.asarray(a).dtype == object else np.asarray(a)


def cplx_mat(ctx, m):
    return m


def make_harness(P):
    op = P["op"]

    def h(ctx):
        from renormalizer.model import basis as ba, Op
        saved_np = ba.np
        if ctx.symbolic:
            ba.np = BasisNp()
        try:
            if op == "sho" and P["general"]:
                ba.np = saved_np
                return h_sho_general(ctx, P, ba, Op)
            if op == "sho":
                return h_sho(ctx, P, ba, Op)
            if op == "spin":
                return h_spin(ctx, ba, Op)
            if op == "electron":
                return h_electron(ctx, ba, Op)
            if op == "hops":
                return h_hops(ctx, P, ba, Op)
        finally:
            ba.np = saved_np
        if op == "holstein":
            return h_holstein(ctx, P)
        if op == "sbm":
            return h_sbm(ctx, P)
        if op == "ti1d":
            return h_ti1d(ctx, P)
        if op == "copy":
            return h_copy(ctx, P)
        if op == "ti1d_mixed":
            return h_ti1d_mixed(ctx, P)
        raise ValueError(op)
    return h


def h_sho_general(ctx, P, ba, Op):
    """general_xp_power=True evaluates x^k / p^k through x_power_k with the float constant 2**(-k/2): not an exact
    algebraic identity, so it is tied to the hard-coded matrices numerically (ground comparison, 1e-12)"""
    N = P["nbas"]
    w, x0 = 1.7, (0.6 if P["shifted"] else 0.0)
    hard = ba.BasisSHO("v", w, N, x0=x0)
    gen = ba.BasisSHO("v", w, N, x0=x0, general_xp_power=True)
    for sym in ("x", "x^2", "p", "p^2"):
        a, c = np.asarray(hard.op_mat(sym), dtype=complex), np.asarray(gen.op_mat(sym), dtype=complex)
        ctx.check("general formula for %s agrees with the hard-coded matrix (1e-12)" % sym, bool(np.max(np.abs(a - c)) <= 1e-12))
    x, p = np.asarray(hard.op_mat("x"), dtype=float), np.asarray(hard.op_mat("p"), dtype=complex)
    for k in (3, 4):
        if N < k + 1:
            continue
        xk, pk = np.linalg.matrix_power(x, k), np.linalg.matrix_power(p, k)
        safe = [(i, j) for i in range(N) for j in range(N) if i + k // 2 <= N - 1 and j + k // 2 <= N - 1 and (i + j + k) // 2 <= N - 1]
        gx, gp = np.asarray(gen.op_mat("x^%d" % k), dtype=complex), np.asarray(gen.op_mat("p^%d" % k), dtype=complex)
        ctx.check("x^%d (general formula) equals the k-fold product away from the edge (1e-10)" % k, all(abs(gx[i, j] - xk[i, j]) <= 1e-10 for i, j in safe))
        ctx.check("p^%d (general formula) equals the k-fold product away from the edge (1e-10)" % k, all(abs(gp[i, j] - pk[i, j]) <= 1e-10 for i, j in safe))


def h_sho(ctx, P, ba, Op):
    N = P["nbas"]
    w = ctx.real("omega", 1.7)
    ctx.assume(ctx.lt(0, w), "omega > 0")
    x0 = ctx.real("x0", 0.6) if P["shifted"] else 0.0
    b = ba.BasisSHO("v", w, N, x0=x0, general_xp_power=P["general"])
    I = np.eye(N)
    one_j = 1j

    def M(sym):
        return np.asarray(b.op_mat(sym))

    x, p = M("x"), M("p")
    below = [(i, j) for i in range(N) for j in range(N) if not (i == N - 1 and j == N - 1)]

    def eq_on(a, c, idxs):
        if not idxs:
            return ctx.all([True])
        return ctx.all([ctx.eq(a[i, j], c[i, j]) for (i, j) in idxs])

    comm = x.dot(p) - p.dot(x)
    ctx.check("[x, p] = i below the truncation edge", eq_on(comm, I * one_j, [(i, j) for (i, j) in below]))
    ctx.check("x is real symmetric, p is Hermitian", ctx.all([ctx.eq(x, x.T), ctx.eq(p, np.conj(p.T))]))
    if not P["shifted"]:
        bm, bd = M("b"), M(r"b^\dagger")
        ctx.check("b^dagger is the transpose of b", ctx.eq(bd, bm.T))
        ctx.check("b b^dagger - b^dagger b = 1 below the edge", eq_on(bm.dot(bd) - bd.dot(bm), I, below))
        for sym, ref in ((r"b^\dagger b", bd.dot(bm)), (r"b b^\dagger", None), ("b b", bm.dot(bm)), (r"b^\dagger b^\dagger", bd.dot(bd)),
                         (r"b^\dagger+b", bd + bm), (r"b^\dagger + b", bd + bm), ("n", bd.dot(bm))):
            if ref is None:
                # b b^dagger of the infinite ladder: n+1 on the diagonal (product of truncated matrices misses the top level)
                ctx.check("symbol 'b b^dagger' is the exact (n+1)", ctx.eq(M(sym), np.diag(np.arange(N) + 1)))
            else:
                ctx.check("symbol %r is the product in the written order" % sym, ctx.eq(M(sym), ref))
        ctx.check("x = (b^dagger + b)/sqrt(2 omega)", ctx.eq(x * x * 2 * w, (bd + bm) * (bd + bm)) if False else ctx.all(
            [ctx.eq(x[i, j] * x[i, j] * 2 * w, (bd + bm)[i, j] * (bd + bm)[i, j]) for i in range(N) for j in range(N)]))
    # shifted origin: x = x(plain) + x0
    plain = ba.BasisSHO("v", w, N, general_xp_power=P["general"])
    ctx.check("shifted origin: x = x_plain + x0", ctx.eq(x, np.asarray(plain.op_mat("x")) + I * x0))
    ctx.check("shifted origin does not move p", ctx.eq(p, np.asarray(plain.op_mat("p"))))
    # powers: exact matrices of the untruncated operators agree with the matrix products away from the edge
    for k in (2, 3, 4):
        if k >= N + 1:
            continue
        if k >= 3 and P["shifted"]:
            continue   # shifted-origin moments mix odd sub-moments, each with the float constant 2**(-m/2): numeric, see h_sho_general
        if k % 2 == 1 and ctx.symbolic:
            continue   # odd general powers use the float constant 2**(-k/2): not an exact algebraic identity (stated in evidence)
        inner = [(i, j) for i in range(N) for j in range(N) if i + (k - 1) <= N - 1 or j + (k - 1) <= N - 1]
        inner = [(i, j) for (i, j) in inner if max(i, j) + (k - 1) - min(1, 0) <= N - 1 + (k - 1) and (min(i, j) + k - 1 <= N - 1)]
        xk = x
        pk = p
        for _ in range(k - 1):
            xk = xk.dot(x)
            pk = pk.dot(p)
        safe = [(i, j) for i in range(N) for j in range(N) if i + k // 2 <= N - 1 and j + k // 2 <= N - 1 and (i + j + k) // 2 <= N - 1]
        ctx.check("x^%d equals the k-fold product away from the truncation edge" % k, eq_on(M("x^%d" % k), xk, safe))
        ctx.check("p^%d equals the k-fold product away from the truncation edge" % k, eq_on(M("p^%d" % k), pk, safe))
        ctx.check("'x x ..' (%d factors) denotes x^%d" % (k, k), ctx.eq(M(" ".join(["x"] * k)), M("x^%d" % k)))
        ctx.check("'p p ..' (%d factors) denotes p^%d" % (k, k), ctx.eq(M(" ".join(["p"] * k)), M("p^%d" % k)))
    ctx.check("x^2 is exact on every entry except the top-level diagonal", eq_on(M("x^2"), x.dot(x), below))
    ctx.check("p^2 is exact on every entry except the top-level diagonal", eq_on(M("p^2"), p.dot(p), below))
    # product symbols in the written order
    ctx.check("'x p' denotes x.p (written order) below the edge", eq_on(M("x p"), x.dot(p), below), info="xp")
    ctx.check("'p x' denotes p.x (written order) below the edge", eq_on(M("p x"), p.dot(x), below), info="px")
    dx = M("dx")
    ctx.check("dx = i p", ctx.eq(dx * one_j * -1, p) if False else ctx.eq(p, dx * (-1j)))
    ctx.check("'x dx' denotes x.dx below the edge", eq_on(M("x dx"), x.dot(dx), below))
    ctx.check("'dx x' denotes dx.x below the edge", eq_on(M("dx x"), dx.dot(x), below))
    ctx.check("dx^2 = -p^2", ctx.all([ctx.eq(M("dx^2"), M("p^2") * -1), ctx.eq(M("dx dx"), M("dx^2"))]))
    ctx.check("'partialx' is an alias of dx", ctx.eq(M("partialx"), dx))
    f = ctx.real("f", 2.5)
    ctx.check("operator factor multiplies the matrix", ctx.eq(np.asarray(b.op_mat(Op("x", "v", f))), x * f))


def h_spin(ctx, ba, Op):
    b = ba.BasisHalfSpin("s")
    X_, Y_, Z_ = (np.asarray(b.op_mat(s)) for s in ("X", "Y", "Z"))
    I = np.eye(2)
    ctx.check("Pauli squares are the identity", ctx.all([ctx.eq(m.dot(m), I) for m in (X_, Y_, Z_)]))
    ctx.check("XY = iZ, YZ = iX, ZX = iY", ctx.all([ctx.eq(X_.dot(Y_), 1j * Z_), ctx.eq(Y_.dot(Z_), 1j * X_), ctx.eq(Z_.dot(X_), 1j * Y_)]))
    ctx.check("aliases", ctx.all([ctx.eq(np.asarray(b.op_mat(a)), m) for names, m in ((("sigma_x", "x"), X_), (("sigma_y", "y"), Y_), (("sigma_z", "z"), Z_)) for a in names]))
    sp, sm = np.asarray(b.op_mat("sigma_+")), np.asarray(b.op_mat("sigma_-"))
    ctx.check("ladder operators", ctx.all([ctx.eq(sp + sm, X_), ctx.eq(sp - sm, 1j * Y_), ctx.eq(np.asarray(b.op_mat("+")), sp), ctx.eq(np.asarray(b.op_mat("-")), sm)]))
    ctx.check("iY = i * Y (real)", ctx.eq(np.asarray(b.op_mat("iY")), (1j * Y_).real))
    f = ctx.cplx("f", 0.3 - 1.2j)
    for sym, ref in (("X Y", X_.dot(Y_)), ("Z X Y", Z_.dot(X_).dot(Y_)), ("sigma_+ sigma_- Z", sp.dot(sm).dot(Z_))):
        n = len(sym.split(" "))
        ctx.check("product symbol %r denotes the product in the written order times the factor" % sym, ctx.eq(np.asarray(b.op_mat(Op(sym, ["s"] * n, f))), ref * f))


def h_electron(ctx, ba, Op):
    b = ba.BasisSimpleElectron("e")
    ad, a = np.asarray(b.op_mat(r"a^\dagger")), np.asarray(b.op_mat("a"))
    ctx.check("a^dagger = a^T, a^dagger a = number operator, anticommutator = 1",
              ctx.all([ctx.eq(ad, a.T), ctx.eq(np.asarray(b.op_mat(r"a^\dagger a")), ad.dot(a)), ctx.eq(ad.dot(a) + a.dot(ad), np.eye(2))]))
    ctx.check("occupied state is index 1 (sigmaqn [0, 1])", ctx.eq(ad.dot(a), np.diag([0.0, 1.0])) and list(np.asarray(b.sigmaqn).reshape(-1)) == [0, 1])
    for n in (2, 3):
        dofs = ["m%d" % i for i in range(n)]
        bm = ba.BasisMultiElectron(dofs, [0] * n)
        bv = ba.BasisMultiElectronVac(dofs)
        conds = []
        for i in range(n):
            for j in range(n):
                m = np.asarray(bm.op_mat(Op(r"a^\dagger a", [dofs[i], dofs[j]])))
                ref = np.zeros((n, n))
                ref[i, j] = 1
                conds.append(ctx.eq(m, ref))
                mv = np.asarray(bv.op_mat(Op(r"a^\dagger a", [dofs[i], dofs[j]])))
                refv = np.zeros((n + 1, n + 1))
                refv[i + 1, j + 1] = 1
                conds.append(ctx.eq(mv, refv))
            mc = np.asarray(bv.op_mat(Op(r"a^\dagger", dofs[i])))
            refc = np.zeros((n + 1, n + 1))
            refc[i + 1, 0] = 1
            conds.append(ctx.eq(mc, refc))
            ma = np.asarray(bv.op_mat(Op("a", dofs[i])))
            conds.append(ctx.eq(ma, refc.T))
        ctx.check("multi-electron matrices place a single 1 at the documented position (%d dofs)" % n, ctx.all(conds))


def h_hops(ctx, P, ba, Op):
    N = P["nbas"]
    b = ba.BasisHopsBoson("h", N)
    bt, btd, num = (np.asarray(b.op_mat(s)) for s in (r"\tilde{b}", r"\tilde{b}^\dagger", r"b^\dagger b"))
    conds = []
    for n in range(N):
        e = np.zeros(N)
        e[n] = 1
        up = np.zeros(N)
        if n + 1 < N:
            up[n + 1] = n + 1
        dn = np.zeros(N)
        if n >= 1:
            dn[n - 1] = 1
        conds += [ctx.eq(btd.dot(e), up), ctx.eq(bt.dot(e), dn), ctx.eq(num.dot(e), n * e)]
    ctx.check("HOPS ladder operators act as documented", ctx.all(conds))


# ------------------------------------------------------------------ model builders
def zeros_exact(ctx, shape, cplx=False):
    """accumulator whose additions are exact in symbolic mode (entries are Sym from the start, so float
    summands are lifted to their exact binary value instead of being added in rounded float arithmetic)"""
    if not ctx.symbolic:
        return np.zeros(shape, dtype=complex if cplx else float)
    from symnum import sym as S, expr as X
    z = np.empty(shape, dtype=object)
    z[...] = S.Sym(X.ZERO)
    return z


def dense_of_terms(ctx, model, terms):
    """sum_k  (x) local matrices of term k, by an independent Kronecker assembly (written order per site)"""
    from renormalizer.model import Op
    dims = [b.nbas for b in model.basis]
    D = int(np.prod(dims))
    tot = zeros_exact(ctx, (D, D), cplx=True)
    for t in terms:
        mats = [np.eye(d) for d in dims]
        per_site = {}
        for sym, dof, qn in zip(t.split_symbol, t.dofs, t.qn_list):
            per_site.setdefault(model.dof_to_siteidx[dof], []).append((sym, dof))
        for si, lst in per_site.items():
            b = model.basis[si]
            if b.multi_dof:
                o = Op(" ".join(s for s, d in lst), [d for s, d in lst])
                mats[si] = np.asarray(b.op_mat(o))
            else:
                m = np.eye(dims[si])
                for s, d in lst:
                    m = m.dot(np.asarray(b.op_mat(s.replace(r"b^\dagger+b", r"b^\dagger + b"))))
                mats[si] = m
        k = np.ones((1, 1))
        for m in mats:
            k = np.kron(k, m)
        tot = tot + k * t.factor
    return tot


def h_holstein(ctx, P):
    from renormalizer.model import HolsteinModel, Mol, Phonon, Op, basis as ba
    from renormalizer.utils import Quantity
    nmol, nph = P["nmol"], P["nph"]
    J = ctx.real("J", 0.31)
    ctx.assume(ctx.nonzero(J), "J != 0 (zero-factor terms are dropped up front)")
    mols = []
    pars = []
    for i in range(nmol):
        e = ctx.real("e%d" % i, 0.2 + 0.1 * i)
        phs = []
        nz_terms = [e]
        pp = []
        for k in range(nph):
            # equal ground/excited frequencies on every other (molecule, mode), different ones on the rest, all displaced
            w0 = [0.9, 1.4][k % 2] + 0.05 * i
            w1 = w0 if (k + i) % 2 == 0 else w0 * 1.25      # both branches of the builder on neighbouring molecules
            d = ctx.real("d%d_%d" % (i, k), 0.7 - 0.2 * k)
            ctx.assume(ctx.nonzero(d), "displacement != 0")
            ph = Phonon([Quantity(w0), Quantity(w1)], [Quantity(0), Quantity(d)] if not ctx.symbolic else [Quantity(0), QSym(d)], n_phys_dim=2)
            phs.append(ph)
            pp.append((w0, w1, d))
        mols.append(Mol(Quantity(e) if not ctx.symbolic else QSym(e), phs))
        pars.append((e, pp))
        ctx.assume(ctx.nonzero(e + sum((0.5 * w1 ** 2) * d * d for (w0, w1, d) in pp)), "on-site energy != 0")
    jq = Quantity(J) if not ctx.symbolic else QSym(J)
    Jm = None
    if P.get("jmat"):
        Jm = np.zeros((nmol, nmol), dtype=object if ctx.symbolic else float)
        for i in range(nmol):
            for j in range(nmol):
                if i != j:
                    Jm[i, j] = ctx.real("J%d%d" % (i, j), 0.31 + 0.2 * i - 0.13 * j)
                    ctx.assume(ctx.nonzero(Jm[i, j]), "J_ij != 0")
        jq = Jm
    model = HolsteinModel(mols, jq, scheme=P["scheme"], periodic=P["periodic"])
    H = dense_of_terms(ctx, model, model.ham_terms)
    # documentation formula, assembled on an explicit basis: electronic occupation index x phonon levels
    ref_model = HolsteinModel(mols, jq, scheme=2)
    # reference Hamiltonian in the scheme-2 layout built by hand
    dims = [b.nbas for b in ref_model.basis]
    D = int(np.prod(dims))
    site_of = ref_model.dof_to_siteidx

    def embed(mat, si):
        k = np.ones((1, 1))
        for s, d in enumerate(dims):
            k = np.kron(k, mat if s == si else np.eye(d))
        return k
    n_e = np.diag([0.0, 1.0])
    ad = np.array([[0.0, 0.0], [1.0, 0.0]])
    ref = zeros_exact(ctx, (D, D))
    for i in range(nmol):
        # on-site energy = local excitation energy + reorganisation energy sum_k 1/2 w1^2 d^2 (the constant of the shifted surface)
        ref = ref + embed(n_e, site_of[i]) * (pars[i][0] + sum((0.5 * w1 ** 2) * d * d for (w0, w1, d) in pars[i][1]))
        for j in range(nmol):
            hop = (abs(i - j) == 1) or (P["periodic"] and abs(i - j) == nmol - 1 and nmol > 2)
            if Jm is not None:
                if i != j:
                    ref = ref + embed(ad, site_of[i]).dot(embed(ad.T, site_of[j])) * Jm[i, j]      # J_ij a+_i a_j
            elif i != j and hop:
                ref = ref + embed(ad, site_of[i]).dot(embed(ad.T, site_of[j])) * J
        for k, (w0, w1, d) in enumerate(pars[i][1]):
            bas = ba.BasisSHO((i, k), w0, 2)
            x = np.asarray(bas.op_mat("x"), dtype=float)
            x2 = np.asarray(bas.op_mat("x^2"), dtype=float)
            p2 = np.asarray(bas.op_mat("p^2"), dtype=float)
            si = site_of[(i, k)]
            ref = ref + embed(p2, si) * 0.5
            ref = ref + embed(x2, si) * (0.5 * w0 ** 2)
            # excited-state surface: 1/2 w1^2 (x - d)^2 - 1/2 w0^2 x^2  (constant 1/2 w1^2 d^2 is part of the local excitation energy by convention)
            ref = ref + embed(n_e, site_of[i]).dot(embed(x2, si)) * (0.5 * (w1 ** 2 - w0 ** 2)) + embed(n_e, site_of[i]).dot(embed(x, si)) * (-(w1 ** 2) * d)
    if P["scheme"] < 4:
        ctx.check("Holstein terms (scheme %d) = documented Hamiltonian" % P["scheme"], ctx.eq(H, ref))
    else:
        # scheme 4: one multi-electron site with vacuum; compare on the <= 1 exciton sector through the explicit basis map
        ctx.check("Holstein scheme 4 agrees with scheme 2 on the shared (0- and 1-exciton) sector", ctx.eq(_project_scheme4(model, H, nmol), _project_scheme2(ref_model, ref, nmol)))


def QSym(v):
    """Quantity carrying a symbolic value in atomic units (constructed without Quantity.__init__'s float()/range tests)"""
    from renormalizer.utils import Quantity
    q = Quantity.__new__(Quantity)
    q.value = v
    q.unit = "a.u."
    return q


def _sector_basis(model, nmol, scheme4):
    """list over (electronic configuration with <= 1 exciton, phonon configuration) -> dense index"""
    dims = [b.nbas for b in model.basis]
    out = {}
    for combo in itertools.product(*[range(d) for d in dims]):
        idx = 0
        for c, d in zip(combo, dims):
            idx = idx * d + c
        if scheme4:
            esite = [i for i, b in enumerate(model.basis) if b.multi_dof][0]
            occ = combo[esite]          # 0 = vacuum, i+1 = exciton on molecule i
            ph = tuple((model.basis[s].dof, combo[s]) for s in range(len(dims)) if s != esite)
        else:
            es = [(s, b.dof) for s, b in enumerate(model.basis) if b.is_electron]
            occs = [mol for (s, mol) in es if combo[s] == 1]
            if len(occs) > 1:
                continue
            occ = 0 if not occs else occs[0] + 1
            ph = tuple((model.basis[s].dof, combo[s]) for s in range(len(dims)) if not model.basis[s].is_electron)
        out[(occ, tuple(sorted(ph)))] = idx
    return out


def _project_scheme4(model, H, nmol):
    m = _sector_basis(model, nmol, True)
    keys = sorted(m)
    return np.array([[H[m[a], m[b]] for b in keys] for a in keys], dtype=H.dtype)


def _project_scheme2(model, H, nmol):
    m = _sector_basis(model, nmol, False)
    keys = sorted(m)
    return np.array([[H[m[a], m[b]] for b in keys] for a in keys], dtype=H.dtype)


def h_sbm(ctx, P):
    from renormalizer.model import SpinBosonModel, Phonon, basis as ba
    from renormalizer.utils import Quantity
    eps, delta = ctx.real("eps", 0.4), ctx.real("delta", -0.9)
    ctx.assume(ctx.all([ctx.nonzero(eps), ctx.nonzero(delta)]), "eps, delta != 0")
    phs, pars = [], []
    for k in range(P["nph"]):
        w = 0.8 + 0.5 * k
        d = ctx.real("d%d" % k, 0.3 + 0.2 * k)
        ctx.assume(ctx.nonzero(d), "displacement != 0")
        # the builder takes the coupling as c = -omega^2 * displacement
        c = d * (-(w ** 2))
        ph = Phonon([Quantity(w), Quantity(w)], [Quantity(0), Quantity(d) if not ctx.symbolic else QSym(d)], n_phys_dim=2)
        phs.append(ph)
        pars.append((w, c))
    model = SpinBosonModel(Quantity(eps) if not ctx.symbolic else QSym(eps), Quantity(delta) if not ctx.symbolic else QSym(delta), phs)
    H = dense_of_terms(ctx, model, model.ham_terms)
    dims = [b.nbas for b in model.basis]

    def embed(mat, si):
        k = np.ones((1, 1))
        for s, d in enumerate(dims):
            k = np.kron(k, mat if s == si else np.eye(d))
        return k
    sz, sx = np.diag([1.0, -1.0]), np.array([[0.0, 1.0], [1.0, 0.0]])
    ref = zeros_exact(ctx, (int(np.prod(dims)),) * 2)
    ref = ref + embed(sz, 0) * eps + embed(sx, 0) * delta
    for k, (w, c) in enumerate(pars):
        bas = ba.BasisSHO(k, w, 2)
        x = np.asarray(bas.op_mat("x"), dtype=float)
        # term by term, so that float products are rounded exactly as in the builder's own terms and only then summed exactly
        ref = ref + embed(np.asarray(bas.op_mat("p^2"), dtype=float), k + 1) * 0.5
        ref = ref + embed(np.asarray(bas.op_mat("x^2"), dtype=float), k + 1) * (0.5 * w ** 2)
        ref = ref + embed(sz, 0).dot(embed(x, k + 1)) * c
    ctx.check("spin-boson terms = eps sz + delta sx + 1/2 sum(p^2 + w^2 q^2) + sz sum c q", ctx.eq(H, ref))


def h_ti1d(ctx, P):
    from renormalizer.model import TI1DModel, Op, basis as ba
    ncell, rng = P["ncell"], P["rng"]
    basis = [ba.BasisHalfSpin("s")]
    h0, g = ctx.real("h", 0.7), ctx.real("g", -0.45)
    ctx.assume(ctx.all([ctx.nonzero(h0), ctx.nonzero(g)]), "h, g != 0")
    local = [Op("Z", "s", h0)]
    nonlocal_ = [Op("sigma_+ sigma_-", [(0, "s"), (rng, "s")], g), Op("sigma_- sigma_+", [(0, "s"), (rng, "s")], g)]
    model = TI1DModel(basis, local, nonlocal_, ncell)
    H = dense_of_terms(ctx, model, model.ham_terms)
    dims = [2] * ncell

    def embed(mat, si):
        k = np.ones((1, 1))
        for s in range(ncell):
            k = np.kron(k, mat if s == si else np.eye(2))
        return k
    sz = np.diag([1.0, -1.0])
    sp = np.array([[0.0, 1.0], [0.0, 0.0]])
    ref = zeros_exact(ctx, (2 ** ncell, 2 ** ncell))
    for i in range(ncell):
        ref = ref + embed(sz, i) * h0
        j = (i + rng) % ncell
        ref = ref + (embed(sp, i).dot(embed(sp.T, j)) + embed(sp.T, i).dot(embed(sp, j))) * g
    ctx.check("TI1D terms = sum_i h_i + h_{i,(i+d) mod n} (wrap-around included)", ctx.eq(H, ref))
    names = [b.dofs[0] for b in model.basis]
    ctx.check("TI1D basis is the unit cell repeated ncell times with cell-tagged DoF names", names == [("cell%d" % i, "s") for i in range(ncell)])


def h_copy(ctx, P):
    """BasisSet.copy(new_dof) is what TI1DModel and add_auxiliary_space build their repeated / auxiliary sites from: the copy must denote the same local matrices"""
    from renormalizer.model import basis as ba
    w = ctx.real("omega", 1.7)
    ctx.assume(ctx.lt(0, w), "omega > 0")
    x0 = ctx.real("x0", 0.6)
    cases = [
        (ba.BasisSHO("v", w, 3, x0=x0), ["x", "p", "x^2", "p^2", r"b^\dagger b", r"b^\dagger", "b", "I", "x p"]),
        (ba.BasisSHO("v", 1.7, 3, x0=0.6, general_xp_power=True), ["x", "x^2", "p^2"]),      # (the general-power path needs concrete parameters)
        (ba.BasisHalfSpin("s", sigmaqn=[1, -1]), ["X", "Y", "Z", "sigma_+", "sigma_-", "I"]),
        (ba.BasisSimpleElectron("e"), [r"a^\dagger", "a", r"a^\dagger a", "I"]),
        (ba.BasisMultiElectron(["a", "b"], [0, 1]), None),
        (ba.BasisMultiElectronVac(["a", "b"]), None),
        (ba.BasisHopsBoson("h", 3), [r"b^\dagger b", r"\tilde{b}^\dagger", r"\tilde{b}", "I"]),
    ]
    from renormalizer.model import Op
    for b, syms in cases:
        new = ("c", "x") if not b.multi_dof else [("c", d) for d in b.dofs]
        c = b.copy(new)
        conds = [c.nbas == b.nbas, type(c) is type(b), list(c.dofs) == (list(new) if b.multi_dof else [new])]
        if syms is None:
            for d1, n1 in zip(b.dofs, c.dofs):
                for d2, n2 in zip(b.dofs, c.dofs):
                    conds.append(ctx.eq(np.asarray(b.op_mat(Op(r"a^\dagger a", [d1, d2]))), np.asarray(c.op_mat(Op(r"a^\dagger a", [n1, n2])))))
        else:
            for sy in syms:
                conds.append(ctx.eq(np.asarray(b.op_mat(sy)), np.asarray(c.op_mat(sy))))
        ctx.check("%s.copy: same size, same class, renamed DoF, identical local matrices" % type(b).__name__, ctx.all(conds))


def h_ti1d_mixed(ctx, P):
    from renormalizer.model import TI1DModel, Op, basis as ba
    ncell = P["ncell"]
    w = 1.3
    x0 = ctx.real("x0", 0.6)
    h0, g, k = ctx.real("h", 0.7), ctx.real("g", -0.45), ctx.real("k", 0.3)
    ctx.assume(ctx.all([ctx.nonzero(h0), ctx.nonzero(g), ctx.nonzero(k)]), "h, g, k != 0")
    cell = [ba.BasisSimpleElectron("e"), ba.BasisSHO("v", w, 2, x0=x0)]
    local = [Op(r"a^\dagger a", "e", h0), Op(r"a^\dagger a x", ["e", "e", "v"], k)]
    nonlocal_ = [Op(r"a^\dagger a", [(0, "e"), (1, "e")], g), Op(r"a^\dagger a", [(1, "e"), (0, "e")], g)]
    model = TI1DModel(cell, local, nonlocal_, ncell)
    H = dense_of_terms(ctx, model, model.ham_terms)
    dims = [2, 2] * ncell
    D = int(np.prod(dims))

    def embed(mat, si):
        kk = np.ones((1, 1))
        for s_, d in enumerate(dims):
            kk = np.kron(kk, mat if s_ == si else np.eye(d))
        return kk
    ne = np.diag([0.0, 1.0])
    ad = np.array([[0.0, 0.0], [1.0, 0.0]])
    # x of a two-level oscillator with origin x0: sqrt(1/(2 w)) (b + b^+) + x0
    xm = np.array([[0.0, 1.0], [1.0, 0.0]], dtype=object if ctx.symbolic else float) * float(np.sqrt(0.5 / w)) + np.eye(2) * x0
    ref = zeros_exact(ctx, (D, D))
    for i in range(ncell):
        ref = ref + embed(ne, 2 * i) * h0
        ref = ref + embed(ne, 2 * i).dot(np.asarray(_embed_obj(xm, 2 * i + 1, dims))) * k
        j = (i + 1) % ncell
        if ncell > 1:
            ref = ref + (embed(ad, 2 * i).dot(embed(ad.T, 2 * j)) + embed(ad, 2 * j).dot(embed(ad.T, 2 * i))) * g
    ctx.check("TI1D (electron + shifted oscillator cell): terms = sum_i h_i + h_{i,i+1 mod n} with EVERY cell carrying the unit cell's origin", ctx.eq(H, ref))


def _embed_obj(mat, si, dims):
    kk = np.ones((1, 1), dtype=mat.dtype)
    for s_, d in enumerate(dims):
        kk = np.kron(kk, mat if s_ == si else np.eye(d, dtype=int))
    return kk


def main(tier, seed):
    from renormalizer.model import basis as ba, model as mm
    return common.run_check(
        PROP, "checks.c16", tier, seed,
        explanation="BasisSHO.op_mat with symbolic omega > 0, symbolic origin x0 and exact algebraic sqrt(n) (nbas 2-4, thorough 1-6; hard-coded and general_xp_power paths): "
                    "canonical commutator, Hermiticity, ladder relations, every product symbol against the matrix product in the written order, powers against k-fold "
                    "products away from the truncation edge, shifted origin, dx/partialx aliases, operator factor. Half-spin Pauli algebra and product symbols with a symbolic "
                    "complex factor; electron / multi-electron(+vacuum) / HOPS-boson matrices; HolsteinModel (2-3 molecules, schemes 1-4, open/periodic), SpinBosonModel and "
                    "TI1DModel (2-4 cells, interaction range 1-3 incl. wrap-around) term lists evaluated densely with symbolic couplings against the documentation formula.",
        assumptions=["BasisSineDVR (sin/cos integrals, quadrature) and the DVR rotation obtained from LAPACK eigh are NOT covered: transcendental / LAPACK-defined (DESIGN.md section 2)",
                     "odd general powers x^k, p^k (k >= 3) use the float constant 2**(-k/2) and are therefore not exact algebraic identities: outside the symbolic claim",
                     "the top-level truncation exception of product symbols is excluded entry-wise as documented", "Holstein frequencies are concrete, couplings/energies symbolic"],
        trusted_base=["z3 5.1 (QF_NRA with algebraic sqrt atoms)", "NumPy object loops"],
        functions=[ba.BasisSHO.op_mat, ba.BasisHalfSpin.op_mat, ba.BasisSimpleElectron.op_mat, ba.BasisMultiElectron.op_mat, ba.BasisMultiElectronVac.op_mat,
                   ba.BasisHopsBoson.op_mat, ba.x_power_k, ba.p_power_k, mm.HolsteinModel.__init__, mm.SpinBosonModel.__init__, mm.TI1DModel.__init__, mm.construct_j_matrix])


if __name__ == "__main__":
    import argparse
    ap = argparse.ArgumentParser()
    ap.add_argument("--tier", default=os.environ.get("VERIF_TIER", "quick"))
    a = ap.parse_args()
    sys.exit(main(a.tier, int(os.environ.get("VERIF_SEED", "0"))))
