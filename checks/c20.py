"""C20 - bipartite vertex cover is a valid minimum cover (both algorithms).

The real `bipartite_vertex_cover` runs on a graph whose adjacency bits are symbolic booleans.  For
algo="Hopcroft-Karp" SciPy's `csr_matrix`/`maximum_bipartite_matching` are replaced (module-local
names) by a contract stub that returns an *arbitrary* maximum matching: a vector of symbolic
integers constrained to be a matching of maximum cardinality, concretised exhaustively by the
solver - so Koenig's construction is exercised for every maximum matching, not only the one SciPy
happens to return.  Obligations: every edge has a selected endpoint; |cover| equals the size of a
maximum matching (weak duality certificate); the internal `assert matchV[v] is not None` is
unreachable.
"""
import os
import sys

VERIF = os.path.dirname(os.path.dirname(os.path.abspath(__file__)))
sys.path.insert(0, VERIF)
REPO = os.environ.get("VERIF_REPO", "/repo")
sys.path.insert(0, REPO)

from checks import common  # noqa: E402

PROP = "C20"
RUN_OPTS = dict(max_paths=400000, budget_s=20.0, witness=True)


def max_matching_size(nU, nV, adj):
    """independent oracle: size of a maximum matching by exhaustive search (tiny graphs)"""
    best = 0

    def rec(u, usedV, size):
        nonlocal best
        if size + (nU - u) <= best:
            return
        if u == nU:
            best = max(best, size)
            return
        rec(u + 1, usedV, size)
        for v in adj[u]:
            if not (usedV >> v) & 1:
                rec(u + 1, usedV | (1 << v), size + 1)
    rec(0, 0, 0)
    return best


def instances(tier, seed):
    shapes = [(1, 1), (1, 2), (2, 1), (2, 2), (2, 3), (3, 2), (3, 3), (3, 4), (4, 3), (1, 6), (6, 1)]
    if tier == "thorough":
        shapes += [(2, 5), (5, 2), (2, 6), (6, 2), (4, 4)]
    out = []
    for nU, nV in shapes:
        for algo in ("Hungarian", "Hopcroft-Karp"):
            if nU * nV >= 12 and algo == "Hopcroft-Karp" and ((nU, nV) == (4, 4) or tier != "thorough"):
                continue
            # split the big shapes on the first row's bits so that 16 workers share the work
            if nU * nV >= 9:
                for first in range(2 ** nV):
                    out.append(dict(label="cover %dx%d %s row0=%s" % (nU, nV, algo, format(first, "0%db" % nV)), nU=nU, nV=nV, algo=algo,
                                    row0=first, key="cover/%s" % algo))
            else:
                out.append(dict(label="cover %dx%d %s" % (nU, nV, algo), nU=nU, nV=nV, algo=algo, row0=None, key="cover/%s" % algo))
    return out


def make_harness(inst):
    nU, nV, algo = inst["nU"], inst["nV"], inst["algo"]
    row0 = inst.get("row0")

    def h(ctx):
        import renormalizer.lib.bipartite_matching.bipartite_matching as bm
        from symnum import sym as S, expr as X
        bits = []
        for u in range(nU):
            row = []
            for v in range(nV):
                if u == 0 and row0 is not None:
                    row.append(bool((row0 >> (nV - 1 - v)) & 1))
                else:
                    row.append(ctx.boolean("e%d_%d" % (u, v)))
            bits.append(row)
        bigraph = [[v for v in range(nV) if bits[u][v]] for u in range(nU)]   # forks on each symbolic bit
        nedge = sum(len(r) for r in bigraph)
        if algo == "Hopcroft-Karp" and nedge == 0:
            # csr_matrix cannot infer a shape from zero edges (IndexError in the real code): outside the domain, stated in evidence
            ctx.assume(False, "HK needs >= 1 edge")
        opt = max_matching_size(nU, nV, bigraph)
        saved = (bm.csr_matrix, bm.maximum_bipartite_matching)
        if ctx.symbolic and algo == "Hopcroft-Karp":
            class G:
                pass

            def csr_stub(arg):
                data, (rows, cols) = arg
                g = G()
                g.shape = (int(max(rows)) + 1, int(max(cols)) + 1)
                g.edges = set(zip([int(r) for r in rows], [int(c) for c in cols]))
                return g

            def matching_stub(g, perm_type="row"):
                assert perm_type == "row"
                gU, gV = g.shape
                ex = ctx.explorer
                m = [S.Sym.I("match%d" % v) for v in range(gV)]
                for v in range(gV):
                    allowed = [X.eq(m[v].re, X.const(-1, "I"))] + [X.eq(m[v].re, X.const(u, "I")) for u in range(gU) if (u, v) in g.edges]
                    ex.assume(X.bor(*allowed), "match entry is -1 or a neighbour")
                for v in range(gV):
                    for w in range(v + 1, gV):
                        ex.assume(X.bor(X.eq(m[v].re, X.const(-1, "I")), X.bnot(X.eq(m[v].re, m[w].re))), "matching injective")
                size = X.ZERO
                for v in range(gV):
                    size = X.add(size, X.ite(X.eq(m[v].re, X.const(-1, "I")), X.const(0, "I"), X.const(1, "I")))
                ex.assume(X.eq(size, X.const(opt, "I")), "matching has maximum cardinality")
                return [ex.concretize(m[v], -1, gU - 1) for v in range(gV)]
            bm.csr_matrix = csr_stub
            bm.maximum_bipartite_matching = matching_stub
        try:
            coverU, coverV = bm.bipartite_vertex_cover(bigraph, algo=algo)
        finally:
            bm.csr_matrix, bm.maximum_bipartite_matching = saved
        coverU = [bool(x) for x in coverU]
        coverV = [bool(x) for x in coverV]
        covered = all((u < len(coverU) and coverU[u]) or (v < len(coverV) and coverV[v]) for u in range(nU) for v in bigraph[u])
        ctx.check("every edge has a selected endpoint", covered)
        ctx.check("cover size equals maximum matching", sum(coverU) + sum(coverV) == opt)
        ctx.check("tables not longer than the vertex sets", len(coverU) <= nU and len(coverV) <= nV)
    return h


def main(tier, seed):
    import renormalizer.lib.bipartite_matching.bipartite_matching as bm
    return common.run_check(
        PROP, "checks.c20", tier, seed,
        explanation="The real bipartite_vertex_cover (incl. new_konig, max_bipartite_matching2, augment) is symbolically executed on graphs whose adjacency "
                    "bits are solver variables: quick = all graphs with nU,nV <= 3 and 1x6, 6x1 (both algorithms) and 3x4, 4x3 (Hungarian); thorough adds 3x4, 4x3 for Hopcroft-Karp, 2x5, 5x2, 2x6, 6x2 (both) and 4x4 (Hungarian). "
                    "For Hopcroft-Karp the SciPy matching is a contract stub returning every maximum matching the solver finds feasible. Each path ends in three "
                    "obligations (edge cover, |cover| = maximum matching by an independent exhaustive oracle, table lengths); an AssertionError inside the code on a "
                    "satisfiable path is a violation.",
        assumptions=["Hopcroft-Karp: graphs with zero edges are outside the domain (csr_matrix cannot infer a shape; the real code raises IndexError) - "
                     "operator tables always have at least one term",
                     "SciPy's maximum_bipartite_matching is trusted to return *a* maximum matching (contract), its particular choice is not assumed",
                     "graphs larger than the stated vertex counts are outside the claim",
                     "the bond-dimension consequence for operator tables is checked in C01's evidence (bond = maximum matching of each cut)"],
        trusted_base=["z3 5.1", "SYMNUM path explorer", "independent exhaustive matching oracle in the harness"],
        functions=[bm.bipartite_vertex_cover, bm.max_bipartite_matching2, bm.augment])


if __name__ == "__main__":
    import argparse
    ap = argparse.ArgumentParser()
    ap.add_argument("--tier", default=os.environ.get("VERIF_TIER", "quick"))
    a = ap.parse_args()
    sys.exit(main(a.tier, int(os.environ.get("VERIF_SEED", "0"))))
