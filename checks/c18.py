"""C18 - numerical kernels: the symmetry-blocked SVD / QR / eigh glue (svd_qn.py) and the structure of
the Krylov exponential.

svd_qn / eigh_qn are executed on a coefficient matrix whose every entry is a solver variable, with
LAPACK replaced by its contract (fresh symbols constrained by A = QR, Q^H Q = I, ... see
symnum/stubs.py).  What is verified is therefore the glue: gather block -> decompose -> scatter back
-> relabel -> (for the truncating form) global sort.  Label patterns are enumerated concretely in the
quick tier (all patterns over two label values incl. repeated labels, empty and one-sided sectors) and
are *symbolic integers* in the thorough tier.
"""
import itertools
import os
import sys

VERIF = os.path.dirname(os.path.dirname(os.path.abspath(__file__)))
sys.path.insert(0, VERIF)
REPO = os.environ.get("VERIF_REPO", "/repo")
sys.path.insert(0, REPO)

import numpy as np  # noqa: E402
from checks import common, lib  # noqa: E402

PROP = "C18"
RUN_OPTS = dict(max_paths=6000, budget_s=30.0)


def instances(tier, seed):
    out = []

    def add(**kw):
        kw["label"] = "%s %dx%d ql=%s qr=%s qt=%s sys=%s full=%s" % (kw["mode"], kw["m"], kw["n"], kw["ql"], kw["qr"], kw["qt"], kw.get("system"), kw.get("full"))
        kw["key"] = "svd_qn/%s" % kw["mode"]
        out.append(kw)

    shapes = [(2, 2), (2, 3), (3, 2)] if tier == "quick" else [(2, 2), (2, 3), (3, 2), (3, 3), (2, 4), (4, 2)]
    for m, n in shapes:
        pats_l = sorted(set(itertools.product((0, 1), repeat=m)))
        pats_r = sorted(set(itertools.product((0, 1), repeat=n)))
        for ql in pats_l:
            for qr in pats_r:
                for qt in (1,) if tier == "quick" else (0, 1, 2):
                    nblocks = sum(1 for a in set(ql) if (qt - a) in set(qr))
                    for system in ("L", "R"):
                        add(mode="qr", m=m, n=n, ql=ql, qr=qr, qt=qt, system=system, full=False)
                    if m * n <= 6 or tier == "thorough":
                        add(mode="svd", m=m, n=n, ql=ql, qr=qr, qt=qt, system="L", full=False)
                    if tier == "thorough" or (m, n) == (2, 2):
                        add(mode="svd", m=m, n=n, ql=ql, qr=qr, qt=qt, system="L", full=True)
                    if m == n and m <= 2 or (tier == "thorough" and m * n <= 4):
                        # eigh_qn diagonalises the (dimension of the larger side)^2 density matrix block by block: with a 3-dimensional side the
                        # reconstruction obligation stays `unknown` at the budget (outside the bound); 2x2 with every label pattern is covered in both tiers
                        add(mode="eigh", m=m, n=n, ql=ql, qr=qr, qt=qt, system="L", full=False)
                        add(mode="eigh", m=m, n=n, ql=ql, qr=qr, qt=qt, system="R", full=False)
    # symbolic-label instances: every label is a solver integer in {0,1}
    sym_shapes = [(2, 2)] if tier == "quick" else [(2, 2), (3, 2), (2, 3)]
    for m, n in sym_shapes:
        for system in ("L", "R"):
            add(mode="qr", m=m, n=n, ql="sym", qr="sym", qt="sym", system=system, full=False)
        add(mode="svd", m=m, n=n, ql="sym", qr="sym", qt="sym", system="L", full=False)
    # two-component labels
    for (ql, qr, qt) in [(((0, 0), (1, 0)), ((1, 1), (0, 1)), (1, 1)), (((0, 1), (0, 1)), ((1, 0), (0, 0)), (1, 1))]:
        add(mode="qr", m=2, n=2, ql=ql, qr=qr, qt=qt, system="L", full=False)
        add(mode="svd", m=2, n=2, ql=ql, qr=qr, qt=qt, system="L", full=False)
    # two-component labels, every pattern over {0,1}^2 on 2x2 (one-sided sectors whose missing partner shares a component
    # with a label on the other side included): eigh fully, svd/qr on a strided subset
    vals2 = [(0, 0), (1, 0), (0, 1), (1, 1)]
    k2 = 0
    for ql in itertools.product(vals2, repeat=2):
        for qr in itertools.product(vals2, repeat=2):
            for qt in ((1, 1), (1, 0)):
                add(mode="eigh", m=2, n=2, ql=ql, qr=qr, qt=qt, system="L", full=False)
                add(mode="eigh", m=2, n=2, ql=ql, qr=qr, qt=qt, system="R", full=False)
                k2 += 1
                if k2 % (7 if tier == "quick" else 2) == seed % 2:
                    add(mode="svd", m=2, n=2, ql=ql, qr=qr, qt=qt, system="L", full=False)
                    add(mode="qr", m=2, n=2, ql=ql, qr=qr, qt=qt, system="R", full=False)
                    add(mode="svd", m=2, n=2, ql=ql, qr=qr, qt=qt, system="L", full=True)
    out.extend(krylov_float_instances(tier))
    for kw in krylov_instances(tier):
        out.append(kw)
    return out


def krylov_float_instances(tier):
    """float build: whether the result keeps its imaginary part depends on the dtypes of start vector and time step, which the object backend cannot
    represent.  One run per (matrix dtype, vector dtype, dt kind); dimensions small enough that the Krylov space is the full space, where the result is
    exact up to rounding (tolerance 1e-8) - no statement about convergence at larger sizes"""
    out = []
    for n in ((3,) if tier == "quick" else (2, 3, 5)):
        for vkind in ("real", "complex"):
            for dkind in ("real", "imag", "complex"):
                for akind in ("real",) + (("complex",) if vkind == "complex" else ()):     # (complex Hermitian A with a real start vector is outside the library's own use)
                    out.append(dict(mode="krylov_float", n=n, vkind=vkind, dkind=dkind, akind=akind, concrete=True,
                                    label="[float build] expm_krylov n=%d A %s, start vector %s, dt %s" % (n, akind, vkind, dkind), key="krylov/floatbuild"))
    return out


def make_krylov_float(P):
    def h(ctx):
        from renormalizer.lib.krylov import krylov as kr
        import scipy.linalg
        n = P["n"]
        rng = np.random.RandomState(7 + n)
        a = rng.rand(n, n) - 0.5
        if P["akind"] == "complex":
            a = a + 1j * (rng.rand(n, n) - 0.5)
        A = (a + a.conj().T) / 2
        v = rng.rand(n) - 0.5
        if P["vkind"] == "complex":
            v = v + 1j * (rng.rand(n) - 0.5)
        dt = {"real": -0.7, "imag": -0.9j, "complex": 0.3 - 0.8j}[P["dkind"]]
        res, j = kr.expm_krylov(lambda x: A.dot(x), dt, v, block_size=n + 2)
        ref = scipy.linalg.expm(dt * A).dot(v)
        ctx.check("expm_krylov (Krylov space = full space) = expm(dt A) v to 1e-8, imaginary part included", bool(np.max(np.abs(np.asarray(res) - ref)) <= 1e-8))
    return h


def krylov_instances(tier):
    out = []
    for n in (2,):
        for bs in range(2, n + 3):
            out.append(dict(mode="krylov", n=n, block_size=bs, label="krylov n=%d block_size=%d" % (n, bs), key="krylov/structure"))
    return out


def _labels(ctx, P):
    if P["ql"] == "sym":
        ql = [ctx.integer("ql%d" % i) for i in range(P["m"])]
        qr = [ctx.integer("qr%d" % i) for i in range(P["n"])]
        qt = ctx.integer("qt")
        for v in ql + qr + [qt]:
            ctx.assume(ctx.all([ctx.le(0, v), ctx.le(v, 1)]), "label in {0,1}")
        mk = (lambda seq: np.array([[v] for v in seq], dtype=object)) if ctx.symbolic else (lambda seq: np.array([[v] for v in seq], dtype=int))
        return mk(ql), mk(qr), (np.array([qt], dtype=object) if ctx.symbolic else np.array([qt], dtype=int))
    ql = np.array(P["ql"], dtype=int).reshape(P["m"], -1)
    qr = np.array(P["qr"], dtype=int).reshape(P["n"], -1)
    qt = np.array(P["qt"], dtype=int).reshape(-1)
    return ql, qr, qt


def _allowed(ctx, ql_i, qr_j, qt):
    """relation 'entry (i,j) is symmetry-allowed' usable with symbolic or concrete labels"""
    if ctx.symbolic:
        from symnum import sym as S, expr as X
        return X.band(*[(S._lift(a) + S._lift(b)).eq_b(S._lift(c)) for a, b, c in zip(ql_i, qr_j, qt)])
    return bool(np.all(np.asarray(ql_i) + np.asarray(qr_j) == np.asarray(qt)))


def make_harness(P):
    if P["mode"] == "krylov":
        return make_krylov_harness(P)
    if P["mode"] == "krylov_float":
        return make_krylov_float(P)

    def h(ctx):
        from renormalizer.mps import svd_qn as sq
        from symnum import stubs
        m, n, mode = P["m"], P["n"], P["mode"]
        ql, qr, qt = _labels(ctx, P)
        undo = None
        if ctx.symbolic:
            c, undo = stubs.lapack_contract(ctx, modules=("renormalizer.mps.svd_qn",))
        try:
            if mode == "eigh":
                # density-matrix form: dm symmetric over the `system` side
                dim = m if P["system"] == "L" else n
                raw = ctx.array("D", (dim, dim), "real")
                dm = (raw + raw.T) if ctx.symbolic else (raw + raw.T)
                try:
                    u, s, newqn = sq.eigh_qn(dm, ql, qr, qt, P["system"])
                except ValueError as e:
                    if "need at least one array to concatenate" in str(e):
                        # no allowed sector at all: nothing to return; the callers never reach this with a valid state
                        ctx.check("eigh: empty result only when no sector is allowed", _no_block(ctx, ql, qr, qt))
                        return
                    raise
                lab = ql if P["system"] == "L" else qr
                comp = qr if P["system"] == "L" else ql
                u = np.asarray(u)
                k = u.shape[1]
                ctx.check("eigh: label count", len(newqn) == k and len(s) == k)
                ctx.check("eigh: columns orthonormal", ctx.eq(u.T.dot(u), np.eye(k)))
                conds = []
                for col in range(k):
                    for row in range(dim):
                        # support of a column lies in the sector named by its label
                        same = _same_label(ctx, lab[row], newqn[col])
                        conds.append(ctx.any([same, ctx.eq(u[row, col], 0)]))
                ctx.check("eigh: column support matches its label", ctx.all(conds))
                ctx.check("eigh: every returned label has a partner sector on the other side (nl + nr = qntot)",
                          ctx.all([_has_partner(ctx, np.asarray(newqn[col]).reshape(-1), comp, qt) for col in range(k)]))
                # U diag(s^2) U^T restores the label-diagonal blocks of dm whose complementary sector exists
                s2 = np.array([x * x for x in s], dtype=object if ctx.symbolic else float)
                rec = (u * s2).dot(u.T)
                conds = []
                for i in range(dim):
                    for j in range(dim):
                        blk = ctx.all([_same_label(ctx, lab[i], lab[j]), _has_partner(ctx, lab[i], comp, qt)])
                        # eigenvalues clipped at 0: equality is claimed for positive semi-definite blocks only; here we
                        # state it on the branch where no clipping happened (s^2 = w), which the harness detects by s*s == w
                        conds.append(ctx.any([ctx.neg(blk), ctx.eq(rec[i, j], dm[i, j]), ctx.neg(P_noclip(ctx, c if ctx.symbolic else None))]))
                        conds.append(ctx.any([blk, ctx.eq(rec[i, j], 0)]))
                ctx.check("eigh: restores the allowed blocks and nothing else (no clipping branch)", ctx.all(conds))
                return
            A = ctx.array("A", (m, n), "real")
            qr_mode = mode == "qr"
            try:
                res = sq.svd_qn(A, ql, qr, qt, QR=qr_mode, system=P["system"], full_matrices=P["full"])
            except ValueError as e:
                if "Invalid quantum number" in str(e):
                    ctx.check("raises 'Invalid quantum number' only when no block is allowed", _no_block(ctx, ql, qr, qt))
                    return
                raise
            ctx.check("returns (does not raise) only when some block is allowed", ctx.neg(_no_block(ctx, ql, qr, qt)))
            if qr_mode:
                u, nql, v, nqr = res
                su = None
            else:
                u, su, nql, v, sv, nqr = res
            u = np.asarray(u)
            v = np.asarray(v)
            ku, kv = u.shape[1], v.shape[1]
            ctx.check("label count matches columns", len(nql) == ku and len(nqr) == kv)
            # labels: nl + nr = qntot columnwise; support of each column in its sector
            kk = min(ku, kv)
            if not P["full"]:
                ctx.check("economic: same number of left and right vectors", ku == kv)
                ctx.check("labels add up to qntot", ctx.all([_allowed(ctx, np.asarray(nql[c]).reshape(-1), np.asarray(nqr[c]).reshape(-1), qt) for c in range(kk)]))
            conds = []
            for col in range(ku):
                for row in range(m):
                    conds.append(ctx.any([_same_label(ctx, ql[row], nql[col]), ctx.eq(u[row, col], 0)]))
            for col in range(kv):
                for row in range(n):
                    conds.append(ctx.any([_same_label(ctx, qr[row], nqr[col]), ctx.eq(v[row, col], 0)]))
            ctx.check("column support matches its label", ctx.all(conds))
            # reconstruction of the allowed part
            if qr_mode:
                rec = u.dot(v.T)
            else:
                ks = len(su) if P["full"] is False else None
                if P["full"]:
                    # the first K columns (non-zero part) pair up; K = number of LAPACK singular values
                    K = sum(1 for _ in range(min(len(su), len(sv))) if True)
                    K = _count_paired(su, sv)
                    rec = (u[:, :K] * np.asarray(su[:K], dtype=u.dtype)).dot(v[:, :K].T)
                else:
                    rec = (u * np.asarray(su, dtype=u.dtype)).dot(v.T)
            conds = []
            for i in range(m):
                for j in range(n):
                    al = _allowed(ctx, ql[i], qr[j], qt)
                    conds.append(ctx.all([ctx.implies(al, ctx.eq(rec[i, j], A[i, j])), ctx.any([al, ctx.eq(rec[i, j], 0)])]))
            ctx.check("product restores exactly the allowed part of the input", ctx.all(conds))
            # orthonormality
            if qr_mode:
                if P["system"] == "L":
                    ctx.check("Q side has orthonormal columns", ctx.eq(u.T.dot(u), np.eye(ku)))
                else:
                    ctx.check("Q side has orthonormal columns", ctx.eq(v.T.dot(v), np.eye(kv)))
            else:
                ctx.check("U has orthonormal columns", ctx.eq(u.T.dot(u), np.eye(ku)))
                ctx.check("V has orthonormal columns", ctx.eq(v.T.dot(v), np.eye(kv)))
                ctx.check("singular values non-negative", ctx.all([ctx.le(0, x) for x in su]))
                if not P["full"]:
                    ctx.check("truncating form is globally sorted", ctx.all([ctx.le(su[i + 1], su[i]) for i in range(len(su) - 1)]))
        finally:
            if undo:
                undo()
    return h


def P_noclip(ctx, contract):
    """True in concrete mode; in symbolic mode the relation 'all eigenvalues handed out by the eigh contract are >= 0'"""
    if not ctx.symbolic:
        return True
    from symnum import expr as X
    # eigenvalue symbols are named w!k[...]; collect from the explorer's assumptions is fragile - use the
    # contract's record
    conds = []
    for w in getattr(contract, "eigvals", []):
        for x in w:
            conds.append(X.le(X.ZERO, x.re))
    return X.band(*conds)


def _count_paired(su, sv):
    # in full mode su = [block_s..., zeros_u...], sv = [block_s..., zeros_v...]; the common prefix of identical objects
    k = 0
    for a, b in zip(su, sv):
        if a is b or (not hasattr(a, "re") and a == b and a != 0):
            k += 1
        else:
            break
    return k


def _same_label(ctx, a, b):
    a = np.asarray(a, dtype=object).reshape(-1)
    b = np.asarray(b, dtype=object).reshape(-1)
    if ctx.symbolic:
        from symnum import sym as S, expr as X
        return X.band(*[S._lift(x).eq_b(S._lift(y)) for x, y in zip(a, b)])
    return bool(all(int(x) == int(y) for x, y in zip(a, b)))


def _has_partner(ctx, lab_i, comp, qt):
    return ctx.any([_allowed(ctx, np.asarray(lab_i).reshape(-1), np.asarray(c).reshape(-1), qt) for c in comp])


def _no_block(ctx, ql, qr, qt):
    return ctx.neg(ctx.any([_allowed(ctx, ql[i], qr[j], qt) for i in range(len(ql)) for j in range(len(qr))]))


# ------------------------------------------------------------------ Krylov structure
def make_krylov_harness(P):
    def h(ctx):
        from renormalizer.lib.krylov import krylov as kr
        n, bs = P["n"], P["block_size"]
        raw = ctx.array("H", (n, n), "real")
        A = raw + raw.T
        v0 = ctx.array("v", (n,), "real")
        ctx.lemma_sos(v0)
        if ctx.symbolic:
            ctx.explorer.div_mode = "fork"
        calls = []
        saved = kr._expm_krylov
        saved_np, saved_xp = kr.np, kr.xp
        from symnum import stubs
        if ctx.symbolic:
            kr.np = KrylovNp()
            kr.xp = KrylovNp()

        def spy(alpha, beta, V, v_norm, dt):
            calls.append((np.array(alpha, dtype=object), np.array(beta, dtype=object), np.array(V, dtype=object), v_norm, dt))
            raise _Stop()
        kr._expm_krylov = spy
        try:
            try:
                kr.expm_krylov(lambda x: A.dot(x), 1, v0, block_size=bs)
            except _Stop:
                pass
        finally:
            kr._expm_krylov = saved
            kr.np, kr.xp = saved_np, saved_xp
        ctx.check("reaches the small exponential exactly once", len(calls) == 1)
        if len(calls) != 1:
            return
        alpha, beta, V, vnorm, dt = calls[0]
        k = len(alpha)
        V = V.T   # handed over as (n, k)
        ctx.check("slices consistent: len(beta) = len(alpha)-1, V has len(alpha) vectors of length n", len(beta) == k - 1 and V.shape[0] == k and V.shape[1] == n)
        ctx.check("krylov dimension does not exceed the space", k <= n + 1)
        ctx.check("norm of start vector", ctx.eq(vnorm * vnorm, sum((x * x for x in v0), 0)))
        if k <= 2 and n <= 2:
            # full Lanczos relations (exact arithmetic): orthonormal rows, tridiagonal projection
            G = V.dot(V.T)
            ctx.check("Lanczos vectors orthonormal", ctx.eq(G, np.eye(k)))
            T = V.dot(A).dot(V.T)
            ref = np.zeros((k, k), dtype=object)
            for i in range(k):
                ref[i, i] = alpha[i]
            for i in range(k - 1):
                ref[i, i + 1] = ref[i + 1, i] = beta[i]
            ctx.check("projection is tridiag(alpha, beta)", ctx.eq(T, ref))
    return h


class _Stop(Exception):
    pass


class KrylovNp:
    def __getattr__(self, item):
        return getattr(np, item)

    @staticmethod
    def zeros(shape, dtype=None, *a, **k):
        z = np.empty(shape, dtype=object)
        z[...] = 0
        return z

    @staticmethod
    def finfo(dt):
        return np.finfo(np.float64)


def main(tier, seed):
    from renormalizer.mps import svd_qn as sq
    from renormalizer.lib.krylov import krylov as kr
    return common.run_check(
        PROP, "checks.c18", tier, seed,
        explanation="svd_qn (QR / RQ / SVD, economic and full) and eigh_qn run on fully symbolic coefficient matrices with LAPACK replaced by its contract; "
                    "label patterns: quick = every pattern over {0,1} on matrices up to 2x3/3x2 (repeated labels, empty and one-sided sectors, no allowed block) plus "
                    "2x2 with symbolic integer labels and two-component labels; thorough adds 3x3, 2x4, 4x2 and symbolic labels on 2x3/3x2. Obligations: orthonormal "
                    "columns, product = allowed part of the input and 0 elsewhere, each column supported in the sector named by its returned label, labels add to "
                    "qntot, global sort of the truncating form, ValueError iff no block. Krylov: Lanczos structure (slices, dimension, exact orthonormality and "
                    "tridiagonal projection for n=2).",
        assumptions=["LAPACK (qr, rq, svd, eigh) by contract: outputs are arbitrary values satisfying the factorisation, orthonormality, triangularity and ordering",
                     "real-valued coefficient matrices in quick tier",
                     "Krylov accuracy 'to its stated tolerance' is a floating-point convergence statement and is NOT covered (DESIGN.md section 2)",
                     "eigh_qn reconstruction is claimed on the branch without negative-eigenvalue clipping"],
        trusted_base=["z3 5.1", "NumPy object loops", "LAPACK contract stubs (symnum/stubs.py)"],
        functions=[sq.svd_qn, sq.eigh_qn, sq.blockappend, sq.blockrecover, sq.optimized_svd, sq.get_qn_mask, sq.add_outer, kr.expm_krylov])


if __name__ == "__main__":
    import argparse
    ap = argparse.ArgumentParser()
    ap.add_argument("--tier", default=os.environ.get("VERIF_TIER", "quick"))
    a = ap.parse_args()
    sys.exit(main(a.tier, int(os.environ.get("VERIF_SEED", "0"))))
