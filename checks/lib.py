"""Harness-side helpers shared by the chain (MPS/MPO/MpDm) checks: building operands with an arbitrary
symbolic pre-state that satisfies the quantum-number representation invariant, independent dense
oracles, and the invariant itself as a relation.  Everything works in both harness modes (symbols /
floats) so that a counterexample can be replayed on the float build."""
import itertools
import numpy as np

from symnum import sym as S, expr as X


# ------------------------------------------------------------------ models
def site_basis(kind, i):
    from renormalizer.model import basis as ba
    if kind == "e":      # simple electron, qn 0/1
        return ba.BasisSimpleElectron("e%d" % i)
    if kind == "s":      # half spin, qn 0/0
        return ba.BasisHalfSpin("s%d" % i)
    if kind == "S":      # half spin carrying qn -1/+1 (Sz conservation style)
        return ba.BasisHalfSpin("s%d" % i, sigmaqn=[1, -1])
    if kind == "v":      # harmonic oscillator, 3 levels
        return ba.BasisSHO("v%d" % i, 1.0, 3)
    if kind == "w":      # harmonic oscillator, 2 levels
        return ba.BasisSHO("v%d" % i, 1.0, 2)
    if kind == "m":      # two-dof multi electron site with vacuum-free labels 1,1
        return ba.BasisMultiElectron(["m%da" % i, "m%db" % i], [0, 1])
    if kind == "E2":     # electron with 2-component qn (alpha/beta style)
        return ba.BasisHalfSpin("q%d" % i, sigmaqn=[[0, 0], [1, 0]]) if i % 2 == 0 else ba.BasisHalfSpin("q%d" % i, sigmaqn=[[0, 0], [0, 1]])
    raise ValueError(kind)


def make_model(kinds, terms=None):
    from renormalizer.model import Model
    return Model([site_basis(k, i) for i, k in enumerate(kinds)], terms or [])


# ------------------------------------------------------------------ labels and the invariant
def sigmaqn_of(mp, i):
    return np.asarray(mp._get_sigmaqn(i))


def _lab(x):
    """label vector -> list of Sym (one per component)"""
    return [S._lift(v) for v in np.asarray(x, dtype=object).reshape(-1)]


def label_relation(ql, sq, qr, qntot, where):
    """B: the label rule for one tensor entry.  where: 'L' (left of centre), 'C' (centre), 'R'"""
    ql, sq, qr, qt = _lab(ql), _lab(sq), _lab(qr), _lab(qntot)
    conj = []
    for c in range(len(qt)):
        if where == "L":
            conj.append((ql[c] + sq[c]).eq_b(qr[c]))
        elif where == "C":
            conj.append((ql[c] + sq[c] + qr[c]).eq_b(qt[c]))
        else:
            conj.append(ql[c].eq_b(sq[c] + qr[c]))
    return X.band(*conj)


def where_of(i, qnidx):
    return "L" if i < qnidx else ("C" if i == qnidx else "R")


def allowed_b(mp_like, i, idx, qn, qntot, qnidx, sigmaqn):
    """B for 'entry idx of site i may be non-zero'.  idx = (l, p..., r)"""
    l, r = idx[0], idx[-1]
    sq = sigmaqn[tuple(idx[1:-1])]
    return label_relation(qn[i][l], sq, qn[i + 1][r], qntot, where_of(i, qnidx))


def inv_relation(ctx, mp):
    """the representation invariant of DESIGN.md C06 on the current state of `mp` as one relation"""
    n = mp.site_num
    conds = []
    qn = mp.qn
    ok_shape = len(qn) == n + 1 and all(np.asarray(qn[i]).shape[0] == mp[i].shape[0] for i in range(n)) \
        and np.asarray(qn[n]).shape[0] == mp[n - 1].shape[-1]
    if not ok_shape:
        return ctx.all([False])
    if not (isinstance(mp.qnidx, (int, np.integer)) and 0 <= mp.qnidx < n):
        return ctx.all([False])
    zero = np.zeros(len(_lab(mp.qntot)), dtype=int)
    for bnd in (0, n):
        for row in np.asarray(qn[bnd], dtype=object).reshape(-1, len(zero)):
            conds.append(ctx_eq_labels(ctx, row, zero))
    for i in range(n):
        arr = mp[i].array
        sq = sigmaqn_of(mp, i)
        for idx in np.ndindex(*arr.shape):
            v = arr[idx]
            if ctx.symbolic:
                vz = S._lift(v).eq_b(S.Sym(X.ZERO))
                if vz.op == "true":
                    continue
                conds.append(X.bor(vz, allowed_b(mp, i, idx, qn, mp.qntot, mp.qnidx, sq)))
            else:
                if abs(v) > 1e-10:
                    conds.append(_allowed_concrete(i, idx, qn, mp.qntot, mp.qnidx, sq))
    return ctx.all(conds)


def ctx_eq_labels(ctx, a, b):
    if ctx.symbolic:
        return X.band(*[x.eq_b(y) for x, y in zip(_lab(a), _lab(b))])
    return bool(np.all(np.asarray(a) == np.asarray(b)))


def _allowed_concrete(i, idx, qn, qntot, qnidx, sigmaqn):
    l, r = idx[0], idx[-1]
    sq = np.asarray(sigmaqn[tuple(idx[1:-1])])
    ql, qr, qt = np.asarray(qn[i][l]), np.asarray(qn[i + 1][r]), np.asarray(qntot)
    w = where_of(i, qnidx)
    if w == "L":
        return bool(np.all(ql + sq == qr))
    if w == "C":
        return bool(np.all(ql + sq + qr == qt))
    return bool(np.all(ql == sq + qr))


def mask_for(sigmaqn, shape, i, qn, qntot, qnidx):
    """concrete boolean mask of label-allowed entries (labels concrete)"""
    m = np.zeros(shape, dtype=bool)
    for idx in np.ndindex(*shape):
        m[idx] = _allowed_concrete(i, idx, qn, qntot, qnidx, sigmaqn)
    return m


# ------------------------------------------------------------------ operand construction
def _finish(ctx, mp, name, model, arrays, qn, qntot, qnidx, to_right, coeff):
    mp.model = model
    if (not ctx.symbolic) and any(np.iscomplexobj(a) for a in arrays):
        mp.to_complex(inplace=True)      # float build: the container's dtype decides what append() accepts
    for a in arrays:
        mp.append(a)
    mp.qn = [np.array(q, dtype=object if ctx.symbolic and _has_sym(q) else int).reshape(len(q), -1) for q in qn]
    mp.qntot = np.array(qntot, dtype=object if ctx.symbolic and _has_sym(qntot) else int).reshape(-1)
    mp.qnidx = qnidx
    mp.to_right = to_right
    if coeff is not None:
        mp.coeff = coeff
    return mp


def _has_sym(q):
    return any(isinstance(v, S.Sym) for v in np.asarray(q, dtype=object).reshape(-1))


def masked_array(ctx, name, shape, kind, mask):
    a = ctx.array(name, shape, kind)
    if mask is not None:
        if ctx.symbolic:
            z = S.Sym(X.ZERO)
            for idx in np.ndindex(*shape):
                if not mask[idx]:
                    a[idx] = z
        else:
            a[~mask] = 0
    return a


def build_mps(ctx, name, model, bonds, qn, qntot, qnidx, to_right=None, kind="real", coeff="real", cls=None, masked=True):
    """Mps with arbitrary entries on the label-allowed positions and exact zeros elsewhere (the
    arbitrary valid pre-state of the one-step induction)."""
    from renormalizer.mps import Mps
    cls = cls or Mps
    mp = cls()
    mp.model = model
    n = model.nsite
    arrays = []
    for i in range(n):
        sq = np.asarray(mp._get_sigmaqn(i))
        shape = (bonds[i],) + tuple(sq.shape[:-1]) + (bonds[i + 1],)
        mask = mask_for(sq, shape, i, qn, qntot, qnidx) if masked else None
        arrays.append(masked_array(ctx, "%s%d" % (name, i), shape, kind, mask))
    c = None
    if coeff == "real":
        c = ctx.real(name + ".coeff", 1.3)
    elif coeff == "cplx":
        c = ctx.cplx(name + ".coeff", 0.8 - 0.6j)
    elif coeff == "one":
        c = 1
    if to_right is None:
        to_right = qnidx == 0
    mp2 = cls()
    return _finish(ctx, mp2, name, model, arrays, qn, qntot, qnidx, to_right, c)


def build_mpo(ctx, name, model, bonds, qn, qntot, qnidx, to_right=None, kind="real", masked=True):
    from renormalizer.mps import Mpo
    mp = Mpo()
    mp.model = model
    n = model.nsite
    arrays = []
    for i in range(n):
        sq = np.asarray(mp._get_sigmaqn(i))
        shape = (bonds[i],) + tuple(sq.shape[:-1]) + (bonds[i + 1],)
        mask = mask_for(sq, shape, i, qn, qntot, qnidx) if masked else None
        arrays.append(masked_array(ctx, "%s%d" % (name, i), shape, kind, mask))
    if to_right is None:
        to_right = qnidx == 0
    mp2 = Mpo()
    return _finish(ctx, mp2, name, model, arrays, qn, qntot, qnidx, to_right, None)


# ------------------------------------------------------------------ independent dense oracles
def tensors(mp):
    return [mp[i].array for i in range(mp.site_num)]


def dense_vec(ts):
    """contract a list of (l, p, r) tensors to the dense vector (row-major site order)"""
    res = np.ones((1, 1), dtype=object if any(t.dtype == object for t in ts) else ts[0].dtype)
    for t in ts:
        res = np.tensordot(res, t, axes=([-1], [0]))       # (..., p, r)
        res = res.reshape(-1, t.shape[-1])
    return res[:, 0]


def dense_op(ts):
    """contract (l, p, q, r) tensors to the dense matrix [p1 p2 .., q1 q2 ..]"""
    res = np.ones((1, 1, 1), dtype=object if any(t.dtype == object for t in ts) else ts[0].dtype)   # (P, Q, bond)
    for t in ts:
        res = np.tensordot(res, t, axes=([-1], [0]))       # (P, Q, p, q, r)
        P, Q, p, q, r = res.shape
        res = res.transpose(0, 2, 1, 3, 4).reshape(P * p, Q * q, r)
    return res[:, :, 0]


def dense_of(mp):
    """represented object: dense tensor times the scalar prefactor (if the class has one)"""
    ts = tensors(mp)
    d = dense_vec(ts) if ts[0].ndim == 3 else dense_op(ts)
    c = getattr(mp, "coeff", None)
    if c is not None:
        d = d * c
    return d


def conj(a):
    return np.conj(a) if isinstance(a, np.ndarray) else (a.conjugate() if hasattr(a, "conjugate") else a)


def vdot(a, b):
    """sum conj(a_i) b_i for object or float vectors"""
    return sum((conj(x) * y for x, y in zip(np.asarray(a).reshape(-1), np.asarray(b).reshape(-1))), 0)


def basis_qn(model, site_sigmaqn=None):
    """list of total qn of every product basis state, in dense order"""
    sig = [np.asarray(b.sigmaqn) for b in model.basis]
    out = []
    for combo in itertools.product(*[range(len(s)) for s in sig]):
        out.append(sum(sig[i][c] for i, c in enumerate(combo)))
    return out


def sector_relation(ctx, model, dense, qntot):
    """zero amplitude outside the sector `qntot` (state vector form)"""
    conds = []
    qt = np.asarray(qntot, dtype=object).reshape(-1)
    for amp, q in zip(np.asarray(dense).reshape(-1), basis_qn(model)):
        if ctx.symbolic:
            az = S._lift(amp).eq_b(S.Sym(X.ZERO))
            if az.op == "true":
                continue
            conds.append(X.bor(az, X.band(*[S._lift(a).eq_b(S._lift(b)) for a, b in zip(np.asarray(q).reshape(-1), qt)])))
        else:
            if abs(amp) > 1e-10:
                conds.append(bool(np.all(np.asarray(q).reshape(-1) == np.asarray(qt, dtype=int))))
    return ctx.all(conds)


# ------------------------------------------------------------------ enumeration of label structures
def label_structures(kinds, bonds, qntot, qnidx, values=(0, 1, 2), cap=None, cls="mps", stride_seed=0):
    """all assignments of bond labels (one component) from `values` such that every site has at least one
    allowed entry.  Returned as list of qn lists.  Deterministic; `cap` keeps an evenly strided subset."""
    model = make_model(kinds)
    n = len(kinds)
    if cls == "mps":
        sig = [np.asarray(b.sigmaqn) for b in model.basis]
    else:
        from renormalizer.mps.svd_qn import add_outer
        sig = [add_outer(np.asarray(b.sigmaqn), -np.asarray(b.sigmaqn)) for b in model.basis]
    inner = []
    for i in range(1, n):
        inner.append(list(itertools.product(values, repeat=bonds[i])))
    out = []
    for combo in itertools.product(*inner):
        qn = [[[0]]] + [[[v] for v in c] for c in combo] + [[[0]]]
        ok = True
        for i in range(n):
            shape = (bonds[i],) + tuple(sig[i].shape[:-1]) + (bonds[i + 1],)
            m = mask_for(sig[i], shape, i, [np.array(q) for q in qn], np.array([qntot]), qnidx)
            if not m.any():
                ok = False
                break
        if ok:
            out.append(qn)
    if cap and len(out) > cap:
        step = len(out) / float(cap)
        out = [out[int(k * step + stride_seed) % len(out)] for k in range(cap)]
    return out
