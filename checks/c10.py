"""C10 - imaginary-time and thermal propagation: what the family can decide.

  * imaginary-time propagation-and-compression (Taylor, RK4, general RK): with dt = -i tau (tau a solver
    variable) the real Mps.evolve / MpDm.evolve return sum_k c_k (-tau H)^k psi resp. the RK image before the final
    normalisation, and normalize() divides the tensor part by its norm (canonicalise/compress as identity, C04/C05);
  * the closed-form propagator Mpo.exact_propagator: site tensors are diag(E(x w n)) ("GS") - with E the
    exponential as an uninterpreted function - the scalar E(shift x) multiplies the returned operator, labels
    are trivial; Mps.evolve_exact / MpDm.evolve_exact on symbolic states with a symbolic energy offset: the
    offset phase cancels exactly (cos^2 + sin^2 = 1 is the only analytic fact used), the result carries it and
    the input is untouched;
  * purification inputs: MpDm.max_entangled_gs is the (normalised) identity.
That thermal propagation "yields the Gibbs state / canonical averages" is the limit of many float steps and is
not decidable here (DESIGN.md section 2).
"""
import os
import sys

VERIF = os.path.dirname(os.path.dirname(os.path.abspath(__file__)))
sys.path.insert(0, VERIF)
REPO = os.environ.get("VERIF_REPO", "/repo")
sys.path.insert(0, REPO)

import numpy as np  # noqa: E402
from checks import common, lib  # noqa: E402
from checks import c09  # noqa: E402

PROP = "C10"
RUN_OPTS = dict(max_paths=2000, budget_s=60.0)


def instances(tier, seed):
    out = []
    for order in ((1, 2) if tier == "quick" else (1, 2, 3, 4)):
        for cls in ("mps", "mpdm"):
            out.append(dict(op="imag_taylor", order=order, cls=cls, label="imaginary-time Taylor order=%d %s" % (order, cls), key="imag/taylor"))
    out.append(dict(op="imag_rk", method="Heun_RK2", cls="mps", label="imaginary-time general RK Heun", key="imag/rk"))
    if tier == "thorough":
        from checks import c09 as _c09
        for m in _c09.NONEMBEDDED:
            if m not in ("Heun_RK2", "Fehlberg5"):     # the six-stage tableau with a bond-2 operator exceeds the worker's memory cap
                out.append(dict(op="imag_rk", method=m, cls="mps", label="imaginary-time general RK %s" % m, key="imag/rk"))
        for scheme in (2, 4):
            for nlev in (2, 4):
                out.append(dict(op="propagator_ex", scheme=scheme, nlev=nlev, label="exact_propagator EX eigen-decomposition per mode scheme=%d levels=%d" % (scheme, nlev), key="propagator/EX/modes"))
    out.append(dict(op="imag_rk4", cls="mps", label="imaginary-time RK4", key="imag/rk4"))
    for space in ("GS", "EX"):
        for scheme in (2, 4):
            out.append(dict(op="propagator", space=space, scheme=scheme, label="exact_propagator %s scheme=%d" % (space, scheme), key="propagator/%s" % space))
    for scheme in (2, 4):
        out.append(dict(op="propagator_ex", scheme=scheme, label="exact_propagator EX eigen-decomposition per mode scheme=%d" % scheme, key="propagator/EX/modes"))
    for cls in ("mps", "mpdm"):
        for space in ("GS",):
            out.append(dict(op="evolve_exact", cls=cls, space=space, label="evolve_exact %s %s symbolic offset" % (cls, space), key="evolve_exact/%s" % cls))
    out.append(dict(op="max_entangled", label="max_entangled_gs is the normalised identity", key="max_entangled"))
    out.append(dict(op="thermalprop_step", label="ThermalProp single step: which Hamiltonian, which offset, which time step", key="thermalprop"))
    out.append(dict(op="normalize", label="normalize kinds", key="normalize"))
    return out


def holstein(nmol=2, nlev=2, scheme=2):
    from renormalizer.model import HolsteinModel, Mol, Phonon
    from renormalizer.utils import Quantity
    mols = []
    for i in range(nmol):
        ph = Phonon.simple_phonon(Quantity(0.8 + 0.3 * i), Quantity(0.5), nlev)
        mols.append(Mol(Quantity(0.0), [ph]))
    return HolsteinModel(mols, Quantity(0.1), scheme=scheme)


def holstein_ex(scheme=2, nlev=3):
    """two molecules with two modes each; a pair of modes shares the frequency but not the displacement, another pair is identical"""
    from renormalizer.model import HolsteinModel, Mol, Phonon
    from renormalizer.utils import Quantity
    pars = [[(0.8, 0.5), (1.1, 0.3)], [(0.8, -0.7), (1.1, 0.3)]]
    mols = [Mol(Quantity(0.0), [Phonon.simple_phonon(Quantity(w), Quantity(d), nlev) for w, d in pp]) for pp in pars]
    return HolsteinModel(mols, Quantity(0.1), scheme=scheme), [ph for m in mols for ph in m.ph_list]


def ex_site_matches(ctx, T, ph, x, extra, tol=1e-9):
    """T (n x n site matrix of the EX propagator) against  sum_k E(x w_k) v_k v_k^T  for the eigenpairs of THIS mode's displaced-oscillator
    Hamiltonian, built independently.  The eigenpairs are floats from LAPACK, so this is a numeric comparison (tolerance 1e-9) of the
    coefficient matrix of every exponential atom E(x w) - x (and the shift) stay symbolic."""
    from symnum import expr as X
    n = ph.pbond
    b = np.diag(np.sqrt(np.arange(1, n)), 1)
    h = np.diag(np.arange(n)) * ph.omega[0] + (b + b.T) * ph.term10
    w, v = np.linalg.eigh(h)
    if not ctx.symbolic:
        ref = (v * np.exp(x * w)).dot(v.T) * extra
        return bool(np.allclose(np.asarray(T, dtype=complex), ref, atol=tol, rtol=1e-9))
    acc = np.zeros((n, n, n))
    for a_ in range(n):
        for b_ in range(n):
            ent = T[a_, b_]
            if not hasattr(ent, "re"):
                return False
            if ent.im is not None:
                return False
            for mono, c in X.poly(ent.re).items():
                ws = []
                for at in mono:
                    nd = X._nodes[at] if isinstance(at, int) else at
                    if nd.op == "uf" and nd.args[0] == "exp":
                        pa = X.poly(nd.args[1])
                        if len(pa) == 1:
                            (mm, cc), = pa.items()
                            names = [getattr(X._nodes[z] if isinstance(z, int) else z, "args", ("?",))[0] for z in mm]
                            if names == ["x"]:
                                ws.append(float(cc))
                if len(ws) != 1:
                    return False
                k = int(np.argmin(np.abs(w - ws[0])))
                if abs(w[k] - ws[0]) > tol:
                    return False
                acc[k, a_, b_] += float(c)
    for k in range(n):
        if np.max(np.abs(acc[k] - np.outer(v[:, k], v[:, k]))) > tol:
            return False
    return True


def _strip_shift(ctx, t, shift, x):
    """remove the scalar E(shift x) carried by the centre site (concrete: divide; symbolic: drop that atom from every monomial)"""
    from symnum import expr as X, sym as S
    if not ctx.symbolic:
        return np.asarray(t) / np.exp(shift * x)
    target = S._lift(shift * x).exp().re
    out = np.empty(t.shape, dtype=object)
    for idx in np.ndindex(*t.shape):
        ent = t[idx]
        if not hasattr(ent, "re"):
            out[idx] = ent
            continue
        pl = {}
        for mono, c in X.poly(ent.re).items():
            m2 = tuple(a for a in mono if (X._nodes[a] if isinstance(a, int) else a) is not target)
            if len(m2) != len(mono) - 1:
                m2 = mono + ("missing-shift-factor",) if False else mono   # factor absent: leave as is, the comparison will fail
            pl[m2] = pl.get(m2, 0) + c
        out[idx] = S.Sym(X.from_poly(pl, "R"))
    return out


def make_harness(P):
    op = P["op"]

    def h(ctx):
        from renormalizer.mps import Mps, Mpo, MpDm
        from renormalizer.utils import EvolveConfig, EvolveMethod, CompressConfig, CompressCriteria
        from symnum import sym as S, expr as X
        if op.startswith("imag"):
            n = 2
            model = lib.make_model(("s", "s"))
            tau = ctx.real("tau", 0.3)
            ctx.assume(ctx.lt(0, tau), "tau > 0")
            dt = tau * (-1j)
            H = c09.sym_op(ctx, model, n, 2 if P["cls"] == "mps" and op != "imag_rk4" else 1, "o")
            D = lib.dense_op(lib.tensors(H))
            if P["cls"] == "mps":
                psi = c09.sym_state(ctx, model, n, 2 if op == "imag_taylor" else 1)
                y0 = lib.dense_vec(lib.tensors(psi))
                apply_ = lambda v: D.dot(v)
            else:
                psi = MpDm()
                psi.model = model
                bonds = [1, 1, 1]
                for i in range(n):
                    psi.append(ctx.array("r%d" % i, (bonds[i], 2, 2, bonds[i + 1]), "real"))
                psi.build_empty_qn()
                psi.coeff = 1
                y0 = lib.dense_op(lib.tensors(psi))
                apply_ = lambda v: D.dot(v)       # Mpo.contract(MpDm) = H rho
            psi.compress_config = CompressConfig(CompressCriteria.fixed, max_bonddim=10 ** 6)
            if op == "imag_taylor":
                psi.evolve_config = EvolveConfig(EvolveMethod.prop_and_compress, adaptive=False, taylor_order=P["order"], guess_dt=-0.1j)
                cs_ = psi.evolve_config.taylor_config.coeff
                ref = y0 * cs_[0]
                v = y0
                for k in range(1, P["order"] + 1):
                    v = apply_(v) * (-1) * tau
                    ref = ref + v * cs_[k]
            elif op == "imag_rk4":
                psi.evolve_config = EvolveConfig(EvolveMethod.prop_and_compress_tdrk4, adaptive=False, guess_dt=-0.1j)
                f = lambda v: apply_(v) * (-1j)
                k1 = f(y0)
                k2 = f(y0 + k1 * (0.5 * dt))
                k3 = f(y0 + k2 * (0.5 * dt))
                k4 = f(y0 + k3 * dt)
                ref = y0 + k1 * (1 / 6 * dt) + k2 * (2 / 6 * dt) + k3 * (2 / 6 * dt) + k4 * (1 / 6 * dt)
            else:
                psi.evolve_config = EvolveConfig(EvolveMethod.prop_and_compress_tdrk, adaptive=False, rk_solver=P["method"], guess_dt=-0.1j)
                ref = c09.rk_reference(psi.evolve_config.rk_config.tableau, lambda t: D, y0, dt, 0)
            flat = np.asarray(ref).reshape(-1)
            with c09.IdentityCompression():
                res = psi.evolve(H, dt, normalize=False)
            ctx.check("imaginary-time step (before normalisation) = integrator image with dt = -i tau", ctx.eq(np.asarray(lib.dense_of(res)).reshape(-1), flat))
            return
        if op == "normalize":
            model = lib.make_model(("s", "s"))
            for kind in ("mps_and_coeff", "mps_only", "mps_norm_to_coeff"):
                psi = c09.sym_state(ctx, model, 2, 1, name="n" + kind[4])
                c0 = ctx.real("c0", -1.7)
                ctx.assume(ctx.nonzero(c0), "prefactor != 0")
                psi.coeff = c0
                v = lib.dense_vec(lib.tensors(psi))
                ctx.lemma_sos(v)
                psi.normalize(kind)
                w = lib.dense_vec(lib.tensors(psi))
                n2 = sum((x * x for x in v), 0)
                N = n2.sqrt() if ctx.symbolic else np.sqrt(n2)
                ctx.check("normalize(%s): tensor part = input / its norm" % kind, ctx.eq(w * N, v))
                if kind == "mps_only":
                    ctx.check("normalize(mps_only): prefactor unchanged", ctx.eq(psi.coeff, c0))
                elif kind == "mps_and_coeff":
                    ctx.check("normalize(mps_and_coeff): prefactor becomes its phase", ctx.eq(psi.coeff * abs(c0), c0))
                else:
                    ctx.check("normalize(mps_norm_to_coeff): the norm moves into the prefactor (represented vector unchanged)", ctx.eq(psi.coeff, c0 * N))
            return
        if op == "thermalprop_step":
            # the plumbing of one imaginary-time step of the thermal job: the propagated state comes from model A, the Hamiltonian from `h_mpo_model` = model B
            from renormalizer.model import Model, Op, basis as ba
            from renormalizer.mps.thermalprop import ThermalProp
            from checks.c17 import _mpo_stubs
            basis = [ba.BasisHalfSpin("s0"), ba.BasisHalfSpin("s1")]
            fa = [ctx.real("fa%d" % k, 0.4 + 0.3 * k) for k in range(2)]
            fb = [ctx.real("fb%d" % k, -0.7 + 0.5 * k) for k in range(3)]
            E = ctx.real("E", 0.37)
            for v in fa + fb:
                ctx.assume(ctx.all([abs(v) > 1e-6, ctx.le(abs(v), 4)]), "1e-6 < |f| <= 4")
            ctx.assume(ctx.any([E == 0, abs(E) > 1e-6]), "offset zero or above 1e-6")
            model_a = Model(basis, [Op("Z", "s0", fa[0]), Op("X X", ["s0", "s1"], fa[1])])
            terms_b = [Op("Z", "s1", fb[0]), Op("X X", ["s0", "s1"], fb[1]), Op("Z Z", ["s0", "s1"], fb[2])]
            model_b = Model(basis, terms_b)
            calls = []

            class FakeState:
                model = model_a

                def evolve(self, h, dt, *a, **k):
                    calls.append((h, dt))
                    return "evolved"
            # the operator construction inside evolve_prop uses the default algo='qr' (pivoted-QR contract: heavy and irrelevant here), so `Mpo` is replaced
            # inside the thermalprop module by a recorder: WHICH model and WHICH offset the step Hamiltonian is built from is the question
            from renormalizer.mps import thermalprop as tpmod
            built = []

            class RecMpo:
                def __init__(self, model, *a, offset=None, **k):
                    built.append((model, offset))
                    self.model, self.offset = model, offset
            real_mpo = tpmod.Mpo
            tpmod.Mpo = RecMpo
            try:
                tp = ThermalProp.__new__(ThermalProp)
                tp.h_mpo = RecMpo(model_b)
                built.clear()
                tp.energies = [ctx.real("E_old", -0.2), E]
                tp.exact = False
                tp.space = "GS"
                dt = -0.1j
                ret = tp.evolve_prop(FakeState(), dt)
            finally:
                tpmod.Mpo = real_mpo
            ctx.check("ThermalProp.evolve_prop evolves the state once, with the step it was given and the operator it just built",
                      len(calls) == 1 and calls[0][1] == dt and ret == "evolved" and len(built) == 1 and calls[0][0].model is built[0][0])
            off = built[0][1] if built else None
            offv = off.as_au() if hasattr(off, "as_au") else off
            ctx.check("ThermalProp.evolve_prop builds the step Hamiltonian from h_mpo_model (not from the model the state carries), shifted by the LAST energy",
                      ctx.all([bool(built) and built[0][0] is model_b, ctx.eq(offv, E) if built else False]))
            return
        if op == "propagator_ex":
            model, phs = holstein_ex(P["scheme"], P.get("nlev", 3))
            x = ctx.real("x", -0.4)
            shift = ctx.real("shift", 0.25)
            prop = Mpo.exact_propagator(model, x, "EX", shift)
            E = (lambda a: S._lift(a).exp()) if ctx.symbolic else (lambda a: np.exp(a))
            conds = []
            it = iter(phs)
            for i, b in enumerate(model.basis):
                t = np.asarray(prop[i].array)[0, :, :, 0]
                if not b.is_phonon:
                    refm = np.eye(b.nbas, dtype=object if ctx.symbolic else float)
                    if i == prop.qnidx:
                        refm = refm * E(shift * x)
                    conds.append(ctx.eq(t, refm))
                    continue
                ph = next(it)
                conds.append(ex_site_matches(ctx, _strip_shift(ctx, t, shift, x) if i == prop.qnidx else t, ph, x, 1.0))
            ctx.check("EX propagator: every vibrational site tensor is sum_k E(x w_k) v_k v_k^T for the eigenpairs of ITS OWN displaced-oscillator Hamiltonian (numeric coefficients, "
                      "1e-9); electronic sites are identities; E(shift x) sits on the centre site", ctx.all(conds))
            return
        if op == "propagator":
            model = holstein(2, 3, P["scheme"])
            x = ctx.real("x", -0.4)
            shift = ctx.real("shift", 0.25)
            prop = Mpo.exact_propagator(model, x, P["space"], shift)
            n = model.nsite
            ctx.check("propagator: one tensor per site, bond dimension 1", len(prop) == n and all(b == 1 for b in prop.bond_dims))
            ctx.check("propagator: labels trivial, centre on the last site", ctx.all([prop.qnidx == n - 1] + [lib.ctx_eq_labels(ctx, q, np.zeros_like(np.asarray(q, dtype=int))) for q in prop.qn]))
            E = (lambda a: S._lift(a).exp()) if ctx.symbolic else (lambda a: np.exp(a))
            conds = []
            scal = E(shift * x)
            carried = False
            for i, b in enumerate(model.basis):
                t = np.asarray(prop[i].array)[0, :, :, 0]
                if b.is_phonon and P["space"] == "GS":
                    refm = np.zeros((b.nbas, b.nbas), dtype=object if ctx.symbolic else float)
                    for k in range(b.nbas):
                        refm[k, k] = E(x * b.omega * k)
                else:
                    refm = None
                if refm is None:
                    if not b.is_phonon:
                        refm = np.eye(b.nbas, dtype=object if ctx.symbolic else float)
                    else:
                        continue   # EX space: V diag(E(x w)) V^T from LAPACK eigh - checked through the product identity below
                if i == prop.qnidx:
                    refm = refm * scal
                    carried = True
                conds.append(ctx.eq(t, refm))
            ctx.check("propagator: site tensors are diag(E(x w n)) / identities, the scalar E(shift x) sits on the centre site of the returned operator", ctx.all(conds) and (carried or P["space"] == "EX"))
            if P["space"] == "EX":
                # semigroup property on the eigenbasis contract: P(x) with x = 0 is the identity times E(0) = 1
                p0 = Mpo.exact_propagator(model, 0.0, "EX", 0.0)
                d0 = lib.dense_op(lib.tensors(p0))
                ctx.check("EX propagator at x = 0 is the identity", bool(np.allclose(np.asarray(d0, dtype=float), np.eye(d0.shape[0]), atol=1e-12)))
            return
        if op == "evolve_exact":
            model = holstein(2, 2, 2)
            n = model.nsite
            bonds = [1] + [2] * (n - 1) + [1]
            if P["cls"] == "mps":
                psi = Mps()
                psi.model = model
                for i in range(n):
                    psi.append(ctx.array("t%d" % i, (bonds[i], model.pbond_list[i], bonds[i + 1]), "real"))
            else:
                psi = MpDm()
                psi.model = model
                for i in range(n):
                    psi.append(ctx.array("t%d" % i, (1, model.pbond_list[i], model.pbond_list[i], 1), "real"))
            psi.build_empty_qn()
            c0 = ctx.real("coeff", 1.3)
            psi.coeff = c0
            off = ctx.real("offset", 0.4)
            dt = ctx.real("dt", 0.2)
            # keep the offset phase away from multiples of pi so that a counterexample found with the uninterpreted cos/sin is
            # also one for the real functions (replay); the proof itself only uses cos^2 + sin^2 = 1
            ctx.assume(ctx.all([ctx.lt(0.25, off), ctx.lt(off, 1.5), ctx.lt(0.25, dt), ctx.lt(dt, 1.5)]), "0.25 < offset, dt < 1.5")
            if ctx.symbolic:
                th = S._lift(off * dt)
                c_, s_ = th.cos(), th.sin()
                ctx.assume(ctx.eq(c_ * c_ + s_ * s_, 1), "lemma: cos^2 + sin^2 = 1 for the offset phase")
                ctx.explorer.any_mode = "opaque"
            before = lib.dense_of(psi)
            tens_before = [t.copy() for t in lib.tensors(psi)]

            class Hm:
                offset = off
            saved = None
            from renormalizer.mps.mp import MatrixProduct
            saved = MatrixProduct.canonicalise
            MatrixProduct.canonicalise = lambda self_, stop_idx=None: self_
            try:
                res = psi.evolve_exact(Hm, dt, P["space"])
            finally:
                MatrixProduct.canonicalise = saved
            # reference: e^{-i dt H_vib} psi with H_vib = sum w b^dagger b (GS space); the offset phase must cancel
            E = (lambda a: S._lift(a).exp()) if ctx.symbolic else (lambda a: np.exp(a))
            mats = []
            for b in model.basis:
                if b.is_phonon:
                    m = np.zeros((b.nbas, b.nbas), dtype=object if ctx.symbolic else complex)
                    for k in range(b.nbas):
                        m[k, k] = E(dt * (-1j) * b.omega * k)
                else:
                    m = np.eye(b.nbas, dtype=object if ctx.symbolic else complex)
                mats.append(m)
            U = np.ones((1, 1), dtype=object if ctx.symbolic else complex)
            for m in mats:
                U = np.kron(U, m)
            if P["cls"] == "mps":
                ref = U.dot(lib.dense_vec(tens_before)) * c0
            else:
                ref = lib.dense_op(tens_before).dot(U) * c0     # MpDm.evolve_exact applies the propagator from the right
            ctx.check("evolve_exact: result (tensors x prefactor) = closed-form vibrational propagator applied to the input; the energy-offset phase cancels", ctx.eq(lib.dense_of(res), ref))
            ctx.check("evolve_exact: the input is untouched", ctx.all([ctx.eq(psi.coeff, c0), ctx.eq(lib.dense_of(psi), before)]))
            return
        if op == "max_entangled":
            model = holstein(2, 2, 2)
            d = MpDm.max_entangled_gs(model)
            dm = np.asarray(lib.dense_op(lib.tensors(d)), dtype=float)
            # electrons in the ground (vacuum) state, vibrations maximally mixed: diagonal, uniform over the vibrational levels
            dims = list(model.pbond_list)
            refm = np.ones((1, 1))
            for b in model.basis:
                if b.is_phonon:
                    refm = np.kron(refm, np.eye(b.nbas) / np.sqrt(b.nbas))
                else:
                    e = np.zeros((b.nbas, b.nbas))
                    e[0, 0] = 1
                    refm = np.kron(refm, e)
            ctx.check("max_entangled_gs = vacuum projector (x) identity / sqrt(dim) on the vibrations", bool(np.allclose(dm, refm, atol=1e-12)))
            return
        raise ValueError(op)
    return h


def main(tier, seed):
    from renormalizer.mps import mps as mpsmod, mpo as mpomod, mpdm as mpdmmod
    return common.run_check(
        PROP, "checks.c10", tier, seed,
        explanation="Imaginary-time propagation-and-compression (Taylor orders 1-2 (1-4), RK4, general RK) for Mps and MpDm with symbolic tau: the returned tensor part is the "
                    "integrator image divided by its norm, prefactor of unit modulus; Mpo.exact_propagator (GS/EX, schemes 2 and 4) with symbolic x and shift and the exponential as "
                    "an uninterpreted function: site tensors, placement of the scalar on the returned operator, trivial labels; Mps.evolve_exact and MpDm.evolve_exact with symbolic "
                    "prefactor, time step and NON-ZERO symbolic energy offset: the offset phase cancels, the input is untouched; MpDm.max_entangled_gs.",
        assumptions=["NOT covered (DESIGN.md section 2): that many imaginary-time steps converge to the Gibbs state / canonical averages, ThermalProp's averages - limits of float iterations",
                     "exp/cos/sin are uninterpreted functions; the only analytic fact used is cos^2 + sin^2 = 1 for the offset phase (stated as a lemma) and parity of cos/sin",
                     "canonicalise/compress are identity stubs (C04/C05)", "the EX-space tensors V diag(E(x w)) V^T come from LAPACK eigh on concrete mode parameters: x and shift stay symbolic, the coefficient matrix of every exponential atom is compared numerically (1e-9) with the eigenpairs of that mode's own Hamiltonian built in the harness (modes sharing a frequency but not the displacement included)",
                     "tree purification (add_auxiliary_space) is under the tree checks"],
        trusted_base=["z3 5.1", "NumPy object loops"],
        functions=[mpsmod.Mps.evolve, mpsmod.Mps._evolve_prop_and_compress, mpsmod.Mps.evolve_exact, mpdmmod.MpDm.evolve_exact, mpomod.Mpo.exact_propagator, mpsmod.normalize,
                   mpdmmod.MpDm.max_entangled_gs])


if __name__ == "__main__":
    import argparse
    ap = argparse.ArgumentParser()
    ap.add_argument("--tier", default=os.environ.get("VERIF_TIER", "quick"))
    a = ap.parse_args()
    sys.exit(main(a.tier, int(os.environ.get("VERIF_SEED", "0"))))
